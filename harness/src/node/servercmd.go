package main

import (
	"bytes"
	"encoding/json"
	"fmt"
	"io"
	"net/http"
	"os"
	"time"

	"github.com/bbva/qed/balloon"
	"github.com/bbva/qed/crypto"
	"github.com/bbva/qed/crypto/hashing"
	"github.com/bbva/qed/gossip"
	"github.com/bbva/qed/protocol"
	"github.com/bbva/qed/server"
	"qedverif/cq"
)

// ---- C08 (and the wiring of C17) at the level the operator uses: the real server.Server (API and management muxes on
// real ports, sender, gossip agent, raft node, RocksDB) is started, used over HTTP, stopped and started again on the
// same directories.  Stop must complete; the restarted server continues the log and serves proofs that verify
// against the snapshots issued before the stop.
func serverCmd(out *cq.Out, seed uint64, tier string) {
	rng := cq.NewRng(seed)
	dir, _ := os.MkdirTemp(out.Dir, "srv")
	defer os.RemoveAll(dir)
	os.MkdirAll(dir+"/keys", 0755)
	_, priv, err := crypto.NewEd25519SignerKeysFile(dir + "/keys")
	if err != nil {
		out.Count("server_skipped_infrastructure", 1)
		return
	}
	ports := freePorts(6)
	conf := server.DefaultConfig()
	conf.NodeID = fmt.Sprintf("srv-%d", os.Getpid())
	conf.HTTPAddr = fmt.Sprintf("127.0.0.1:%d", ports[0])
	conf.RaftAddr = fmt.Sprintf("127.0.0.1:%d", ports[1])
	conf.MgmtAddr = fmt.Sprintf("127.0.0.1:%d", ports[2])
	conf.MetricsAddr = fmt.Sprintf("127.0.0.1:%d", ports[3])
	conf.GossipAddr = fmt.Sprintf("127.0.0.1:%d", ports[4])
	conf.DBPath = dir + "/db"
	conf.RaftPath = dir + "/raft"
	conf.PrivateKeyPath = priv
	conf.RaftHeartbeatTimeout = 300 * time.Millisecond
	conf.RaftElectionTimeout = 300 * time.Millisecond
	conf.RaftLeaseTimeout = 300 * time.Millisecond
	hc := &http.Client{Timeout: 20 * time.Second}
	post := func(path string, v interface{}) (int, []byte, error) {
		body, _ := json.Marshal(v)
		req, _ := http.NewRequest("POST", "http://"+conf.HTTPAddr+path, bytes.NewReader(body))
		req.Header.Set("Content-Type", "application/json")
		req.Header.Set("Api-Key", "k")
		resp, err := hc.Do(req)
		if err != nil {
			return 0, nil, err
		}
		defer resp.Body.Close()
		b, _ := io.ReadAll(resp.Body)
		return resp.StatusCode, b, nil
	}
	var events [][]byte
	var snaps []*balloon.Snapshot
	lives := 3
	if tier == "thorough" {
		lives = 6
	}
	var hist []string
	desc := map[string]interface{}{"seed": seed, "history": &hist}
	for life := 0; life < lives; life++ {
		out.Note(desc)
		var s *server.Server
		var serr error
		if p, msg := cq.Catch(func() { s, serr = server.NewServer(conf) }); p || serr != nil {
			if life == 0 {
				out.Count("server_skipped_infrastructure", 1)
				return
			}
			out.Violate("C08:server-does-not-restart", fmt.Sprintf("the server stopped cleanly after %d events cannot be created again on its directories: %v %s", len(events), serr, msg), desc)
			return
		}
		// what the server's sender publishes for gossip (the server has no peers: it must publish all the same)
		col := &batchCollector{}
		s.VAgent().Out.Subscribe(gossip.BatchMessageType, col, 1<<16)
		issuedBefore := len(snaps)
		started := false
		if !withTimeout(60*time.Second, func() {
			if p, msg := cq.Catch(func() { serr = s.Start() }); p {
				serr = fmt.Errorf("panic: %s", msg)
			}
			started = true
		}) || serr != nil {
			if life == 0 {
				out.Count("server_skipped_infrastructure", 1)
				return
			}
			out.Violate("C08:server-does-not-restart", fmt.Sprintf("the server stopped cleanly after %d events does not start again (started=%v): %v", len(events), started, serr), desc)
			return
		}
		hist = append(hist, fmt.Sprintf("life %d: started with %d events", life, len(events)))
		// wait for the API to listen
		for i := 0; i < 100; i++ {
			if st, _, err := post("/proofs/incremental", protocol.IncrementalRequest{Start: 0, End: 0}); err == nil && st != 0 {
				break
			}
			time.Sleep(50 * time.Millisecond)
		}
		// what was acknowledged in earlier lives is still there and provable against the snapshots issued then
		if len(events) > 0 {
			cur := uint64(len(events) - 1)
			for _, i := range []int{0, len(events) / 2, len(events) - 1} {
				q := protocol.MembershipQuery{Key: events[i], Version: &cur}
				st, body, err := post("/proofs/membership", q)
				var mr protocol.MembershipResult
				ok := err == nil && st == 200 && json.Unmarshal(body, &mr) == nil
				if ok {
					d := hashing.NewSha256Hasher().Do(events[i])
					ok = protocol.ToBalloonProof(&mr, hashing.NewSha256Hasher).DigestVerify(d, &balloon.Snapshot{EventDigest: d, HistoryDigest: snaps[cur].HistoryDigest, HyperDigest: snaps[cur].HyperDigest, Version: cur})
				}
				if !ok {
					out.Violate("C08:restart-visible:server", fmt.Sprintf("after restart %d the server does not serve a verifying membership proof for event %d at version %d (status %d, err %v)", life, i, cur, st, err), desc)
					break
				}
			}
		}
		// a workload of single and bulk insertions
		n := 2 + rng.Intn(5)
		for k := 0; k < n; k++ {
			if rng.Intn(2) == 0 {
				ev := []byte(fmt.Sprintf("srv-%d-%d-%d", seed, life, k))
				st, body, err := post("/events", protocol.Event{Event: ev})
				var sn balloon.Snapshot
				if err != nil || st != 201 || json.Unmarshal(body, &sn) != nil {
					out.Violate("C08:server-refuses-insertion", fmt.Sprintf("life %d: a valid insertion is answered %d (%v)", life, st, err), desc)
					continue
				}
				events, snaps = append(events, ev), append(snaps, &sn)
			} else {
				var evs [][]byte
				for j := 0; j < 2+rng.Intn(30); j++ {
					evs = append(evs, []byte(fmt.Sprintf("srv-%d-%d-%d-%d", seed, life, k, j)))
				}
				st, body, err := post("/events/bulk", protocol.EventsBulk{Events: evs})
				var sns []*balloon.Snapshot
				if err != nil || st != 201 || json.Unmarshal(body, &sns) != nil || len(sns) != len(evs) {
					out.Violate("C08:server-refuses-insertion", fmt.Sprintf("life %d: a valid bulk insertion of %d events is answered %d (%v)", life, len(evs), st, err), desc)
					continue
				}
				events, snaps = append(events, evs...), append(snaps, sns...)
			}
		}
		// every (event, version) pair over HTTP, both endpoints, the version always sent explicitly (0 included)
		if len(events) > 0 {
			cur := uint64(len(events) - 1)
			pairs := 0
			for i := 0; i < len(events) && pairs < 400; i++ {
				for q := uint64(i); q <= cur && pairs < 400; q++ {
					if len(events) > 12 && i > 2 && q != uint64(i) && q != cur && rng.Intn(8) != 0 {
						continue // the pairs around version 0 and the diagonal / last column always, the rest sampled
					}
					pairs++
					d := hashing.NewSha256Hasher().Do(events[i])
					qq := q
					for _, ep := range []string{"/proofs/membership", "/proofs/digest-membership"} {
						var body interface{} = protocol.MembershipQuery{Key: events[i], Version: &qq}
						if ep == "/proofs/digest-membership" {
							body = protocol.MembershipDigest{KeyDigest: d, Version: &qq}
						}
						st, rb, err := post(ep, body)
						var mr protocol.MembershipResult
						ok := err == nil && st == 200 && json.Unmarshal(rb, &mr) == nil
						if ok {
							ok = mr.Exists && mr.QueryVersion == q && protocol.ToBalloonProof(&mr, hashing.NewSha256Hasher).DigestVerify(d, &balloon.Snapshot{EventDigest: d, HistoryDigest: snaps[q].HistoryDigest, HyperDigest: snaps[cur].HyperDigest, Version: q})
						}
						if !ok {
							out.Violate("C01:http-proof-does-not-verify", fmt.Sprintf("POST %s for event %d at version %d of a %d-event log: status %d, err %v, exists=%v, answered query version %d; the proof does not verify against snapshot(%d).history / snapshot(%d).hyper", ep, i, q, len(events), st, err, mr.Exists, mr.QueryVersion, q, cur), desc)
							pairs = 1 << 30
							break
						}
					}
					out.Case(fmt.Sprintf("http-pair:%d:%d", life, pairs%64), true)
				}
			}
			out.Count("http_membership_pairs", 1)
		}
		for i, sn := range snaps {
			if sn.Version != uint64(i) {
				out.Violate("C08:version-not-dense-across-restart:server", fmt.Sprintf("across server restarts the %d-th acknowledged insertion carries version %d", i, sn.Version), desc)
				break
			}
		}
		hist = append(hist, fmt.Sprintf("life %d: %d events acknowledged in total", life, len(events)))
		// C17 at the level of the running server: every snapshot issued in this life is published once, signed
		{
			want := len(snaps) - issuedBefore
			bs, undec := collectBatches(col, want, 3*time.Second)
			seen := map[uint64]int{}
			for _, b := range bs {
				for _, ss := range b.Snapshots {
					seen[ss.Snapshot.Version]++
				}
			}
			lost, dup := 0, 0
			for v := issuedBefore; v < len(snaps); v++ {
				switch c := seen[uint64(v)]; {
				case c == 0:
					lost++
				case c > 1:
					dup++
				}
			}
			if lost > 0 || dup > 0 || undec > 0 {
				out.Violate("C17:snapshot-lost:server", fmt.Sprintf("a stand-alone server issued %d snapshots in this life; its sender published %d of them (%d more than once, %d undecodable batches) within 3 s", want, want-lost, dup, undec), desc)
			}
			out.Count("server_snapshots_published", want-lost)
		}
		out.Note(desc)
		if tier == "thorough" && life == 1 {
			// more events than the snapshots channel holds (65 536): insertions must keep being answered
			for k := 0; k < 9; k++ {
				var evs [][]byte
				for j := 0; j < 8192; j++ {
					evs = append(evs, []byte(fmt.Sprintf("vol-%d-%d-%d", seed, k, j)))
				}
				st, body, err := post("/events/bulk", protocol.EventsBulk{Events: evs})
				var sns []*balloon.Snapshot
				if err != nil || st != 201 || json.Unmarshal(body, &sns) != nil || len(sns) != len(evs) {
					out.Violate("C11:server-wedged-or-wrong-after-request", fmt.Sprintf("bulk %d of 8192 events (after %d events) got no proper answer: status %d, %v", k, len(events), st, err), desc)
					break
				}
				events, snaps = append(events, evs...), append(snaps, sns...)
			}
			for k := 0; k < 3; k++ {
				ev := []byte(fmt.Sprintf("after-volume-%d", k))
				st, body, err := post("/events", protocol.Event{Event: ev})
				var sn balloon.Snapshot
				if err != nil || st != 201 || json.Unmarshal(body, &sn) != nil {
					out.Violate("C11:server-wedged-or-wrong-after-request", fmt.Sprintf("after %d events on a stand-alone server a valid insertion gets no answer: status %d, %v", len(events), st, err), desc)
					break
				}
				events, snaps = append(events, ev), append(snaps, &sn)
			}
			hist = append(hist, fmt.Sprintf("life %d: volume phase, %d events", life, len(events)))
		}
		// Stop must complete, whatever the sender and the agent are doing
		if rng.Intn(2) == 0 {
			time.Sleep(time.Duration(rng.Intn(150)) * time.Millisecond)
		}
		var stopErr error
		stopPanic := ""
		if !withTimeout(60*time.Second, func() {
			if p, msg := cq.Catch(func() { stopErr = s.Stop() }); p {
				stopPanic = msg
			}
		}) {
			out.Violate("C08:shutdown-does-not-complete:server", fmt.Sprintf("Server.Stop did not return within 60 s after %d events (life %d)", len(events), life), desc)
			return
		}
		if stopErr != nil || stopPanic != "" {
			out.Violate("C08:shutdown-does-not-complete:server", fmt.Sprintf("Server.Stop failed after %d events (life %d): %v %s", len(events), life, stopErr, stopPanic), desc)
			return
		}
		out.Case(fmt.Sprintf("server-life:%d", life), life > 0)
		out.Count("server_lives", 1)
	}
	out.Count("server_events", len(events))
	out.Sample(map[string]interface{}{"lives": lives, "events": len(events), "history": hist})
}
