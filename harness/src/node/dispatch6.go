package main

import "qedverif/cq"

func dispatch6(cmd string, out *cq.Out, seed uint64, tier, arg string) bool {
	switch cmd {
	case "restart":
		restartCmd(out, seed, tier)
	default:
		return dispatch7(cmd, out, seed, tier, arg)
	}
	return true
}
