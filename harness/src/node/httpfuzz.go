package main

import (
	"bytes"
	"encoding/base64"
	"encoding/json"
	"fmt"
	"io"
	"net"
	"net/http"
	"net/http/httptest"
	"os"
	"strings"
	"sync"
	"time"

	"crypto/sha256"
	"encoding/binary"
	"github.com/bbva/qed/api/apihttp"
	"github.com/bbva/qed/api/mgmthttp"
	"github.com/bbva/qed/balloon"
	"github.com/bbva/qed/crypto/hashing"
	"github.com/bbva/qed/protocol"
	"qedverif/cq"
)

// ---- C11: no client request crashes or wedges a server.  Real single-node RaftNode behind the real muxes.

type httpReq struct {
	mux    string // api | mgmt
	method string
	path   string
	body   string
	model  string // the request as the proposal model (Fsm/Api.v) sees it
}

func b64n(n int, rng *cq.Rng) string { return base64.StdEncoding.EncodeToString(rng.Bytes(n)) }

// classify: what the body decodes to under encoding/json's rules for protocol.Event{Event []byte} and
// protocol.EventsBulk{Events [][]byte}: an object or null decodes (missing/null field = nil, unknown fields are
// ignored, a string is base64), anything else is a decoding error.  Only POST reaches the decoder.
func classify(method, path, body string) string {
	if method != "POST" {
		return "ROther N"
	}
	var probe interface{}
	if json.Unmarshal([]byte(body), &probe) != nil {
		return "ROther N"
	}
	obj, isObj := probe.(map[string]interface{})
	if probe != nil && !isObj {
		return "ROther N"
	}
	switch path {
	case "/events":
		if v, ok := obj["Event"]; ok && v != nil {
			if _, str := v.(string); !str {
				return "ROther N"
			}
		}
		return "RAdd N 0"
	case "/events/bulk":
		v, ok := obj["Events"]
		if !ok || v == nil {
			return "RBulk N []"
		}
		arr, isArr := v.([]interface{})
		if !isArr {
			return "ROther N"
		}
		for _, e := range arr {
			if _, str := e.(string); e != nil && !str {
				return "ROther N"
			}
		}
		return fmt.Sprintf("RBulk N (repeat 0 %d)", len(arr))
	}
	return "ROther N"
}

func genRequests(rng *cq.Rng, n int) []httpReq {
	apiPaths := []string{"/healthcheck", "/events", "/events/bulk", "/proofs/membership", "/proofs/digest-membership", "/proofs/incremental", "/info", "/info/shards", "/nope"}
	methods := []string{"GET", "POST", "HEAD", "PUT", "DELETE"}
	bodies := func(path string) []string {
		generic := []string{"", "null", "{}", "[]", "\"x\"", "1", "{", "{\"a\":", "true", strings.Repeat("[", 200), "{\"Event\":{}}", "\xff\xfe"}
		var own []string
		switch path {
		case "/events":
			own = []string{`{"Event":"` + b64n(8, rng) + `"}`, `{"Event":""}`, `{"Event":null}`, `{"Event":5}`, `{"Event":"` + b64n(100000, rng) + `"}`}
		case "/events/bulk":
			big := make([]string, 1500)
			for i := range big {
				big[i] = `"` + b64n(6, rng) + `"`
			}
			own = []string{`{"Events":["` + b64n(5, rng) + `","` + b64n(5, rng) + `"]}`, `{"Events":[]}`, `{"Events":null}`, `{"Events":[""]}`, `{"Events":["",""]}`, `{"Events":[null]}`, `{"Events":5}`,
				`{"Events":[` + strings.Join(big, ",") + `]}`, `{"Events":["` + b64n(3, rng) + `","` + b64n(3, rng) + `","` + b64n(3, rng) + `"]}`}
		case "/proofs/membership":
			own = []string{`{"Key":"` + b64n(8, rng) + `"}`, `{"Key":"` + b64n(8, rng) + `","Version":0}`, `{"Key":"","Version":18446744073709551615}`, `{"Key":null,"Version":-1}`, `{"Key":"` + b64n(8, rng) + `","Version":99999}`, `{"Version":1}`, `{"Key":"AA==","Version":18446744073709551616}`}
		case "/proofs/digest-membership":
			for _, l := range []int{0, 1, 3, 4, 5, 16, 31, 32, 33, 34, 64, 70, 300} {
				own = append(own, `{"KeyDigest":"`+b64n(l, rng)+`"}`, `{"KeyDigest":"`+b64n(l, rng)+`","Version":`+fmt.Sprint(rng.Intn(5))+`}`)
			}
			own = append(own, `{"KeyDigest":null}`, `{"KeyDigest":7}`, `{"KeyDigest":"`+b64n(32, rng)+`","Version":18446744073709551615}`)
		}
		// an existing key (the first follow-up event) at versions around the number of events in the log, resolved when sent
		switch path {
		case "/proofs/membership":
			k := base64.StdEncoding.EncodeToString([]byte("follow-1"))
			for _, v := range []string{"@N@", "@N-1@", "@N+1@", "0"} {
				own = append(own, `{"Key":"`+k+`","Version":`+v+`}`)
			}
		case "/proofs/digest-membership":
			k := base64.StdEncoding.EncodeToString(hashing.NewSha256Hasher().Do([]byte("follow-1")))
			for _, v := range []string{"@N@", "@N-1@", "@N+1@", "0"} {
				own = append(own, `{"KeyDigest":"`+k+`","Version":`+v+`}`)
			}
		}
		switch path {
		case "/proofs/incremental":
			own = append(own, `{"Start":0,"End":@N-1@}`, `{"Start":0,"End":@N@}`, `{"Start":@N-1@,"End":@N-1@}`, `{"Start":@N@,"End":@N@}`)
			fallthrough
		case "/proofs/incremental-static":
			own = append(own, []string{`{"Start":0,"End":0}`, `{"Start":0,"End":1}`, `{"Start":5,"End":2}`, `{"Start":0,"End":18446744073709551615}`, `{"Start":18446744073709551615,"End":18446744073709551615}`, `{"Start":-1,"End":1}`, `{"Start":"a"}`, `{"Start":1e3,"End":1e4}`, `{"End":3}`}...)
		}
		return append(own, generic...)
	}
	var out []httpReq
	for i := 0; i < n; i++ {
		if rng.Intn(6) == 0 {
			paths := []string{"/backup", "/backups", "/backup?backupID=1", "/backup?backupID=x", "/backup?backupID=", "/backup?backupID=99999999999", "/backup?other=1", "/backups?x=1"}
			out = append(out, httpReq{"mgmt", methods[rng.Intn(len(methods))], paths[rng.Intn(len(paths))], "", "ROther N"})
			continue
		}
		p := apiPaths[rng.Intn(len(apiPaths))]
		m := methods[rng.Intn(len(methods))]
		if rng.Intn(3) != 0 {
			m = "POST"
		}
		bs := bodies(p)
		b := bs[rng.Intn(len(bs))]
		out = append(out, httpReq{"api", m, p, b, classify(m, p, b)})
	}
	return out
}

// withTimeout runs f; false when it has not returned after d (f keeps running in its goroutine).
func withTimeout(d time.Duration, f func()) bool {
	done := make(chan struct{})
	go func() { f(); close(done) }()
	select {
	case <-done:
		return true
	case <-time.After(d):
		return false
	}
}

func httpCmd(out *cq.Out, seed uint64, tier string) {
	rng := cq.NewRng(seed)
	nreq := 1500
	if tier == "thorough" {
		nreq = 12000
	}
	dir, _ := os.MkdirTemp(out.Dir, "http")
	port := freePorts(1)[0]
	n, _, err := startNode(nodeOpts{id: 0, name: "h", dir: dir, raftPort: port, bootstrap: true, snapThr: 8192, trailing: 10240})
	if err != nil || !waitLeader(n) {
		out.Count("http_skipped_infrastructure", 1)
		return
	}
	api := httptest.NewServer(apihttp.NewApiHttp(n))
	mgmt := httptest.NewServer(mgmthttp.NewMgmtHttp(n))
	hc := &http.Client{Timeout: 20 * time.Second, CheckRedirect: func(*http.Request, []*http.Request) error { return http.ErrUseLastResponse }}
	do := func(r httpReq) (int, string, error) {
		base := api.URL
		if r.mux == "mgmt" {
			base = mgmt.URL
		}
		req, err := http.NewRequest(r.method, base+r.path, bytes.NewReader([]byte(r.body)))
		if err != nil {
			return 0, "", nil
		}
		req.Header.Set("Content-Type", "application/json")
		resp, err := hc.Do(req)
		if err != nil {
			return 0, "", err
		}
		defer resp.Body.Close()
		b, _ := io.ReadAll(resp.Body)
		return resp.StatusCode, string(b), nil
	}
	// the follow-up that must keep working: a valid add and a verifying membership proof
	k := 0
	followUp := func() string {
		k++
		ev := []byte(fmt.Sprintf("follow-%d", k))
		body, _ := json.Marshal(protocol.Event{Event: ev})
		st, rb, err := do(httpReq{"api", "POST", "/events", string(body), ""})
		if err != nil || st != 201 {
			return fmt.Sprintf("a valid add is answered %d (%v)", st, err)
		}
		var snap balloon.Snapshot
		if json.Unmarshal([]byte(rb), &snap) != nil {
			return "the add response does not decode"
		}
		q, _ := json.Marshal(protocol.MembershipQuery{Key: ev, Version: &snap.Version})
		st, rb, err = do(httpReq{"api", "POST", "/proofs/membership", string(q), ""})
		if err != nil || st != 200 {
			return fmt.Sprintf("a valid membership query is answered %d (%v)", st, err)
		}
		var mr protocol.MembershipResult
		if json.Unmarshal([]byte(rb), &mr) != nil {
			return "the membership response does not decode"
		}
		if !protocol.ToBalloonProof(&mr, hashing.NewSha256Hasher).DigestVerify(snap.EventDigest, &snap) {
			return "the membership proof of a freshly added event does not verify against its snapshot"
		}
		return ""
	}
	if why := followUp(); why != "" {
		out.Violate("C11:infrastructure-baseline-broken", why, nil)
		return
	}
	reqs := genRequests(rng, nreq)
	var acases []string
	wedged := false
	for i, r := range reqs {
		desc := map[string]interface{}{"seed": seed, "request_index": i, "mux": r.mux, "method": r.method, "path": r.path, "body": r.body}
		if len(r.body) > 300 {
			desc["body"] = r.body[:300] + fmt.Sprintf("...(%d bytes)", len(r.body))
		}
		out.Note(desc)
		var before, after uint64
		var st int
		var err error
		if !withTimeout(45*time.Second, func() {
			before = n.VBalloonVersion()
			if strings.Contains(r.body, "@N") {
				r.body = strings.NewReplacer("@N-1@", fmt.Sprint(before-1), "@N+1@", fmt.Sprint(before+1), "@N@", fmt.Sprint(before)).Replace(r.body)
				desc["body"] = r.body
			}
			st, _, err = do(r)
			after = n.VBalloonVersion()
		}) {
			out.Violate("C11:server-wedged-or-wrong-after-request", fmt.Sprintf("the node stopped responding (its state is locked) while or after handling %s %s (%.60q)", r.method, r.path, r.body), desc)
			wedged = true
			break
		}
		acases = append(acases, fmt.Sprintf("(%s, %d%%nat)", r.model, after-before))
		out.Case(fmt.Sprintf("req:%d", i), r.body != "")
		cls := fmt.Sprintf("%dxx", st/100)
		if err != nil {
			cls = "dropped"
			sig := "C11:dropped-connection:" + r.mux + ":" + r.method + " " + strings.SplitN(r.path, "?", 2)[0]
			out.Violate(sig, fmt.Sprintf("%s %s with body %.80q got no HTTP response: %v", r.method, r.path, r.body, err), desc)
		} else if st >= 500 && st != 503 {
			out.Count("status_5xx", 1)
		}
		out.Count("class_"+cls, 1)
		if i%10 == 9 || err != nil {
			if why := followUp(); why != "" {
				out.Violate("C11:server-wedged-or-wrong-after-request", fmt.Sprintf("after %s %s (%.60q): %s", r.method, r.path, r.body, why), desc)
				wedged = true
				break
			}
		}
	}
	writeCases := func() {
		f, _ := os.Create(out.Dir + "/cases.v")
		fmt.Fprintf(f, "From Coq Require Import List NArith.\nFrom QV Require Import Fsm.Api.\nImport ListNotations.\nOpen Scope N_scope.\n")
		fmt.Fprintf(f, "Definition cases : list (request N * nat) := %s.\n", cq.List(acases))
		fmt.Fprintf(f, "Definition R := Eval vm_compute in run_api_cases cases.\nPrint R.\n")
		f.Close()
	}
	if wedged {
		// a wedged node cannot be closed cleanly either: report and leave
		writeCases()
		return
	}
	if why := followUp(); why != "" {
		out.Violate("C11:server-wedged-or-wrong-after-request", "at the end of the request stream: "+why, map[string]interface{}{"seed": seed})
		writeCases()
		return
	}
	// unusual but valid framing: bodies sent without a length (chunked), and a request announcing far more than it sends
	{
		type fr struct {
			path string
			body interface{}
			want int
		}
		zero := uint64(0)
		frs := []fr{
			{"/events", protocol.Event{Event: []byte("chunked-1")}, 201},
			{"/events/bulk", protocol.EventsBulk{Events: [][]byte{[]byte("chunked-2"), []byte("chunked-3")}}, 201},
			{"/proofs/membership", protocol.MembershipQuery{Key: []byte("follow-1"), Version: &zero}, 200},
			{"/proofs/digest-membership", protocol.MembershipDigest{KeyDigest: hashing.NewSha256Hasher().Do([]byte("follow-1"))}, 200},
			{"/proofs/incremental", protocol.IncrementalRequest{Start: 0, End: 0}, 200},
		}
		for _, f := range frs {
			b, _ := json.Marshal(f.body)
			req, _ := http.NewRequest("POST", api.URL+f.path, struct{ io.Reader }{bytes.NewReader(b)})
			req.ContentLength = -1 // Transfer-Encoding: chunked
			req.Header.Set("Content-Type", "application/json")
			desc := map[string]interface{}{"seed": seed, "framing": "chunked", "path": f.path, "body": string(b)}
			resp, err := hc.Do(req)
			st := 0
			if err == nil {
				st = resp.StatusCode
				io.ReadAll(resp.Body)
				resp.Body.Close()
			}
			out.Case("chunked:"+f.path, true)
			if err != nil {
				out.Violate("C11:dropped-connection:api:POST "+f.path, fmt.Sprintf("a valid POST %s sent with a chunked body got no HTTP response: %v", f.path, err), desc)
			} else if st != f.want {
				out.Violate("C11:valid-request-refused:chunked", fmt.Sprintf("a valid POST %s sent with a chunked body is answered %d (the same body with a Content-Length: %d)", f.path, st, f.want), desc)
			}
		}
		// Content-Length of 2^45 bytes, 30 bytes sent, then the client stops writing
		if conn, err := net.DialTimeout("tcp", strings.TrimPrefix(api.URL, "http://"), 5*time.Second); err == nil {
			body := `{"Event":"b3ZlcnNpemVkLWxlbmd0aA=="}`
			fmt.Fprintf(conn, "POST /events HTTP/1.1\r\nHost: qed\r\nContent-Type: application/json\r\nContent-Length: 35184372088832\r\n\r\n%s", body)
			if tc, ok := conn.(*net.TCPConn); ok {
				tc.CloseWrite()
			}
			conn.SetReadDeadline(time.Now().Add(10 * time.Second))
			buf := make([]byte, 64)
			nr, _ := conn.Read(buf)
			conn.Close()
			out.Case("oversized-content-length", true)
			out.Count("oversized_length_answered", map[bool]int{true: 1, false: 0}[nr > 0])
		}
		// events chosen by a client so that their digests share long prefixes (a second of hashing finds three strings whose
		// SHA-256 digests agree on the first 28 bits): inserted in separate requests they drive the hyper tree's insertion below
		// the cache into the same stored batches - each must be answered, and the node must live on
		{
			byPrefix := map[uint32][]string{}
			var triple []string
			for i := 0; i < 4000000 && triple == nil; i++ {
				e := fmt.Sprintf("invoice #%d", i)
				d := sha256.Sum256([]byte(e))
				k := binary.BigEndian.Uint32(d[:4]) >> 4
				byPrefix[k] = append(byPrefix[k], e)
				if len(byPrefix[k]) == 3 {
					triple = byPrefix[k]
				}
			}
			desc := map[string]interface{}{"seed": seed, "request": "POST /events, one request each, for events whose digests share their first 28 bits", "events": triple}
			out.Note(desc)
			out.Case("shared-prefix-events", triple != nil)
			for _, e := range triple {
				b, _ := json.Marshal(protocol.Event{Event: []byte(e)})
				resp, err := (&http.Client{Timeout: 60 * time.Second}).Post(api.URL+"/events", "application/json", bytes.NewReader(b))
				if err != nil {
					out.Violate("C11:dropped-connection:api:POST /events", fmt.Sprintf("the insertion of %q (its digest shares 28 bits with an earlier event's) got no HTTP response: %v", e, err), desc)
					break
				}
				io.ReadAll(resp.Body)
				resp.Body.Close()
				if resp.StatusCode >= 500 {
					out.Violate("C11:internal-error-on-valid-request", fmt.Sprintf("the insertion of %q (its digest shares 28 bits with an earlier event's) is answered %d", e, resp.StatusCode), desc)
				}
			}
			out.Count("shared_prefix_insertions", len(triple))
		}
		// a very large but well-formed bulk (16 384 short events, ~300 KB of JSON, a replicated command of more than half a
		// megabyte): it is answered - accepted or refused - and the node lives on
		{
			evs := make([][]byte, 16384)
			for i := range evs {
				evs[i] = []byte(fmt.Sprintf("big-%05d", i))
			}
			b, _ := json.Marshal(protocol.EventsBulk{Events: evs})
			desc := map[string]interface{}{"seed": seed, "request": "POST /events/bulk with 16384 events of 9 bytes"}
			resp, err := (&http.Client{Timeout: 180 * time.Second}).Post(api.URL+"/events/bulk", "application/json", bytes.NewReader(b))
			out.Case("large-bulk", true)
			if err != nil {
				out.Violate("C11:dropped-connection:api:POST /events/bulk", fmt.Sprintf("a well-formed bulk of 16384 events got no HTTP response: %v", err), desc)
			} else {
				io.ReadAll(resp.Body)
				resp.Body.Close()
				out.Count(fmt.Sprintf("large_bulk_status_%d", resp.StatusCode), 1)
				if resp.StatusCode >= 500 {
					out.Violate("C11:internal-error-on-valid-request", fmt.Sprintf("a well-formed bulk of 16384 events is answered %d", resp.StatusCode), desc)
				}
			}
		}
		if !withTimeout(45*time.Second, func() {
			if why := followUp(); why != "" {
				out.Violate("C11:server-wedged-or-wrong-after-request", "after requests with unusual framing (chunked bodies, a Content-Length larger than the body, a bulk of 16384 events): "+why, map[string]interface{}{"seed": seed})
			}
		}) {
			out.Violate("C11:server-wedged-or-wrong-after-request", "the node no longer answers after requests with unusual framing", map[string]interface{}{"seed": seed})
		}
	}
	// ordinary concurrent traffic: several clients query (by event, by digest, incremental) while others insert; every
	// request must be answered, and the node must still work afterwards
	{
		var wg sync.WaitGroup
		var mu sync.Mutex
		stuck := ""
		answered := 0
		deadline := time.Now().Add(2500 * time.Millisecond)
		bigKey := make([]byte, 48*1024)
		worker := func(kind int) {
			defer wg.Done()
			for i := 0; time.Now().Before(deadline); i++ {
				var r httpReq
				switch kind {
				case 0:
					body, _ := json.Marshal(protocol.Event{Event: []byte(fmt.Sprintf("conc-%d-%d", kind, i))})
					r = httpReq{"api", "POST", "/events", string(body), ""}
				case 1:
					body, _ := json.Marshal(protocol.EventsBulk{Events: [][]byte{[]byte(fmt.Sprintf("concb-%d-a", i)), []byte(fmt.Sprintf("concb-%d-b", i))}})
					r = httpReq{"api", "POST", "/events/bulk", string(body), ""}
				case 2, 3, 4:
					key := []byte(fmt.Sprintf("follow-%d", 1+i%k))
					if kind == 4 {
						key = bigKey // a large event: hashing it takes a while
					}
					v := uint64(i % 3)
					body, _ := json.Marshal(protocol.MembershipQuery{Key: key, Version: &v})
					r = httpReq{"api", "POST", "/proofs/membership", string(body), ""}
				case 5:
					body, _ := json.Marshal(protocol.MembershipDigest{KeyDigest: hashing.NewSha256Hasher().Do([]byte("follow-1"))})
					r = httpReq{"api", "POST", "/proofs/digest-membership", string(body), ""}
				default:
					body, _ := json.Marshal(protocol.IncrementalRequest{Start: 0, End: uint64(i % 2)})
					r = httpReq{"api", "POST", "/proofs/incremental", string(body), ""}
				}
				_, _, err := do(r)
				mu.Lock()
				if err != nil && stuck == "" {
					stuck = fmt.Sprintf("%s %s: %v", r.method, r.path, err)
				}
				answered++
				mu.Unlock()
				if err != nil {
					return
				}
			}
		}
		for kind := 0; kind < 7; kind++ {
			wg.Add(1)
			go worker(kind)
		}
		finished := withTimeout(60*time.Second, wg.Wait)
		out.Count("concurrent_requests", answered)
		out.Case("concurrent-traffic", true)
		desc := map[string]interface{}{"seed": seed, "phase": "concurrent traffic: 2 inserting clients, 5 querying clients (membership by event incl. a 48 KiB event, by digest, incremental), 2.5 s"}
		why := ""
		if !finished || stuck != "" {
			why = "a request of the concurrent phase got no answer: " + stuck
		} else if !withTimeout(45*time.Second, func() { why = followUp() }) {
			why = "the node no longer answers after the concurrent phase"
		}
		if why != "" {
			out.Violate("C11:server-wedged-or-wrong-after-request", "under ordinary concurrent traffic (clients inserting while others query): "+why, desc)
			writeCases()
			return
		}
	}
	// replay after restart: everything that was replicated must apply again
	api.Close()
	mgmt.Close()
	n.Close(true)
	n2, _, err := startNode(nodeOpts{id: 0, name: "h", dir: dir, raftPort: port, bootstrap: false, snapThr: 8192, trailing: 10240})
	if portTaken(err) {
		out.Count("http_restart_skipped_infrastructure", 1)
	} else if err != nil {
		out.Violate("C11:restart-after-requests-failed", fmt.Sprintf("the node does not restart on its data after the request stream: %v", err), map[string]interface{}{"seed": seed})
	} else {
		waitLeader(n2)
		n2.VRaft().Barrier(10 * time.Second).Error()
		n2.Close(true)
	}
	writeCases()
	out.Sample(map[string]interface{}{"requests": nreq, "first": fmt.Sprintf("%v", reqs[0])})
}
