package main

import (
	"bytes"
	"fmt"
	"github.com/bbva/qed/balloon"
	"github.com/bbva/qed/consensus"
	"github.com/bbva/qed/crypto/hashing"
	"os"
	"strings"
	"time"

	"qedverif/cq"
)

// ---- C08: clean stop / restart of a real node in its own process: shutdown completes (exit status 0, no abort),
// and the reopened node continues exactly where the stopped one left (dense versions, same digests as a node
// that was never stopped - the digests are compared by the fsm command against the model).
func restartCmd(out *cq.Out, seed uint64, tier string) {
	rng := cq.NewRng(seed)
	points := []int{0, 1, 4, 6}
	if tier == "thorough" {
		points = []int{0, 1, 2, 3, 5, 6, 8, 13, 40}
	}
	for _, k := range points {
		dir, _ := os.MkdirTemp(out.Dir, "rs")
		port := freePorts(1)[0]
		desc := map[string]interface{}{"seed": seed, "stop_after_entries": k}
		out.Note(desc)
		total := 0
		ok := true
		for phase := 0; phase < 3 && ok; phase++ {
			n := k
			if phase > 0 {
				n = 1 + rng.Intn(3)
			}
			o, err := runChild(out, childPlan{Dir: dir, Tag: fmt.Sprintf("rs%d-%d", k, phase), Entries: n, Seed: seed + uint64(phase), Raft: true, Port: port, Recover: phase > 0, Close: true, Snap: phase == 1 || (phase == 0 && k == 4), SnapAfter: map[bool]int{true: 3}[phase == 0 && k == 6]}, 0)
			if strings.Contains(o, "STARTERR") || strings.Contains(o, "NOLEADER") {
				out.Count("restart_skipped_infrastructure", 1)
				ok = false
				break
			}
			if err != nil || !strings.Contains(o, "CLOSED") {
				why := "exit: " + fmt.Sprint(err)
				for _, line := range strings.Split(o, "\n") {
					if strings.Contains(line, "Assertion") || strings.HasPrefix(line, "panic:") || strings.Contains(line, "fatal error") || strings.Contains(line, "SIGABRT") {
						why += " | " + line
					}
				}
				out.Violate("C08:shutdown-does-not-complete", fmt.Sprintf("a node that had applied %d entries did not shut down cleanly (phase %d): %.400s", total, phase, why), desc)
				ok = false
				break
			}
			total += n
			out.Case(fmt.Sprintf("restart:%d:%d", k, phase), phase > 0)
		}
		if ok {
			acks := readAcks(dir + "/acks.jsonl")
			for i, a := range acks {
				if a.Version != uint64(i) {
					out.Violate("C08:version-not-dense-across-restart", fmt.Sprintf("across clean restarts the %d-th acknowledged insertion carries version %d", i, a.Version), desc)
					break
				}
			}
			out.Count("restart_points", 1)
		}
		os.RemoveAll(dir)
	}
	busyClose(out, seed)
	largeRestart(out, rng, seed, tier)
	out.Sample(map[string]interface{}{"stop_points": points, "kind": "child process: single-node raft cluster, workload, (in some incarnations a raft snapshot right before the stop), Close(true), exit; three incarnations per point"})
}

// busyClose: a clean stop requested while the state machine is in the middle of a large bulk (a node configured with a
// short RaftApplyTimeout): Close must still wait for the state machine before it closes the stores - the process must not
// die - and the node must come back with either all of the bulk or none of it, and go on from there.
func busyClose(out *cq.Out, seed uint64) {
	dir, _ := os.MkdirTemp(out.Dir, "rsbusy")
	defer os.RemoveAll(dir)
	port := freePorts(1)[0]
	const bulk = 12000
	desc := map[string]interface{}{"seed": seed, "scenario": "Close(true) while a bulk is being applied", "bulk": bulk, "raft_apply_timeout_ms": 50}
	out.Note(desc)
	o, err := runChild(out, childPlan{Dir: dir, Tag: "busy0", Entries: 4, Seed: seed, Raft: true, Port: port, BusyClose: bulk}, 0)
	if strings.Contains(o, "STARTERR") || strings.Contains(o, "NOLEADER") {
		out.Count("restart_skipped_infrastructure", 1)
		return
	}
	out.Case("restart:busy-close", strings.Contains(o, "CLOSING-WHILE-APPLYING true"))
	if err != nil || !strings.Contains(o, "CLOSED") {
		why := "exit: " + fmt.Sprint(err)
		for _, line := range strings.Split(o, "\n") {
			if strings.Contains(line, "Assertion") || strings.HasPrefix(line, "panic:") || strings.Contains(line, "fatal error") || strings.Contains(line, "SIGABRT") || strings.Contains(line, "SIGSEGV") || strings.Contains(line, "signal arrived") {
				why += " | " + line
			}
		}
		out.Violate("C08:shutdown-does-not-complete:while-applying", fmt.Sprintf("a clean stop requested while the state machine was applying a bulk of %d events (RaftApplyTimeout 50 ms) did not complete: %.400s", bulk, why), desc)
		return
	}
	o2, err2 := runChild(out, childPlan{Dir: dir, Tag: "busy1", Entries: 2, Seed: seed + 1, Raft: true, Port: port, Recover: true, Close: true}, 0)
	if strings.Contains(o2, "STARTERR") || strings.Contains(o2, "NOLEADER") {
		out.Count("restart_skipped_infrastructure", 1)
		return
	}
	if err2 != nil || !strings.Contains(o2, "CLOSED") {
		out.Violate("C08:cannot-restart:after-busy-close", fmt.Sprintf("the node stopped in the middle of a bulk does not come back: %v %.300s", err2, lastLines(o2, 6)), desc)
		return
	}
	acks := readAcks(dir + "/acks.jsonl")
	// the acknowledgements of the first life (4 small bulks), then - after the big bulk, applied entirely or not at all -
	// those of the second life: versions must continue at base or at base + bulk
	for i := 1; i < len(acks); i++ {
		d := int64(acks[i].Version) - int64(acks[i-1].Version)
		if d != 1 && d != 1+bulk {
			out.Violate("C08:version-not-dense-across-restart:busy-close", fmt.Sprintf("after a stop in the middle of a bulk of %d events, consecutive acknowledged insertions carry versions %d and %d", bulk, acks[i-1].Version, acks[i].Version), desc)
			break
		}
	}
	out.Count("busy_close_runs", 1)
}

func lastLines(s string, n int) string {
	ls := strings.Split(strings.TrimSpace(s), "\n")
	if len(ls) > n {
		ls = ls[len(ls)-n:]
	}
	return strings.Join(ls, " | ")
}

// largeRestart: a log of more than 1000 events (the hyper cache table then spans several reader pages), a clean
// stop, and a reopen: everything served afterwards equals what a twin that was never stopped serves.
func largeRestart(out *cq.Out, rng *cq.Rng, seed uint64, tier string) {
	rounds := 1
	if tier == "thorough" {
		rounds = 3
	}
	for r := 0; r < rounds; r++ {
		lg := genLog(rng, fmt.Sprintf("bigrs%d", r), 5+rng.Intn(3))
		tail := genLog(rng, fmt.Sprintf("tail%d", r), 3)
		dir, _ := os.MkdirTemp(out.Dir, "bigrs")
		desc := map[string]interface{}{"seed": seed, "large_log_round": r, "entries_before_stop": len(lg)}
		out.Note(desc)
		twin := openFSM(dir + "/twin")
		n := openFSM(dir + "/db")
		var snaps []*balloon.Snapshot
		var events []hashing.Digest
		for _, e := range lg {
			s, _ := n.VApply(e.index, e.evs)
			twin.VApply(e.index, e.evs)
			snaps = append(snaps, s...)
			events = append(events, e.evs...)
		}
		desc["events_before_stop"] = len(events)
		if !withTimeout(60*time.Second, func() { n.VCloseFSM() }) {
			out.Violate("C08:shutdown-does-not-complete", fmt.Sprintf("closing a node holding %d events did not return within 60 s", len(events)), desc)
			continue
		}
		var n2 *consensus.RaftNode
		if p, msg := cq.Catch(func() { n2 = openFSM(dir + "/db") }); p {
			out.Violate("C08:reopen-panic", "reopening the node on its data panicked: "+msg, desc)
			continue
		}
		if v := n2.VBalloonVersion(); v != uint64(len(events)) {
			out.Violate("C08:version-after-reopen", fmt.Sprintf("after reopening the node reports %d events, %d were applied", v, len(events)), desc)
		}
		cur := uint64(len(events) - 1)
		bad := ""
		for t := 0; t < 40 && bad == ""; t++ {
			k := rng.Intn(len(events))
			q := uint64(k + rng.Intn(len(events)-k))
			p, msg := cq.Catch(func() {
				mp, err := n2.VBalloon().QueryDigestMembershipConsistency(events[k], q)
				if err != nil || !mp.Exists || !mp.DigestVerify(events[k], &balloon.Snapshot{HistoryDigest: snaps[q].HistoryDigest, HyperDigest: snaps[cur].HyperDigest}) {
					bad = fmt.Sprintf("the membership proof for event %d at version %d served after the reopen does not verify against the snapshots issued before the stop (err=%v)", k, q, err)
				}
			})
			if p {
				bad = "a membership query after the reopen failed internally: " + msg
			}
			out.Case(fmt.Sprintf("bigrs:%d:%d", r, t), k < int(q))
		}
		if bad != "" {
			out.Violate("C08:diverges-from-never-stopped", bad, desc)
		}
		last := lg[len(lg)-1].index
		for j, e := range tail {
			var s1, s2 []*balloon.Snapshot
			p, msg := cq.Catch(func() { s1, _ = n2.VApply(last+uint64(j)+1, e.evs) })
			s2, _ = twin.VApply(last+uint64(j)+1, e.evs)
			if p {
				out.Violate("C08:diverges-from-never-stopped", "an insertion after the reopen failed internally: "+msg, desc)
				break
			}
			same := len(s1) == len(s2)
			for x := 0; same && x < len(s1); x++ {
				same = s1[x].Version == s2[x].Version && bytes.Equal(s1[x].HistoryDigest, s2[x].HistoryDigest) && bytes.Equal(s1[x].HyperDigest, s2[x].HyperDigest)
			}
			if !same {
				out.Violate("C08:diverges-from-never-stopped", fmt.Sprintf("insertion %d after the reopen returns snapshots that differ from those of a node that was never stopped", j), desc)
				break
			}
		}
		if fp, fq := tablesFP(n2.VStore()), tablesFP(twin.VStore()); fp != fq {
			out.Violate("C08:diverges-from-never-stopped", "after the reopen and further insertions the stored tables differ from those of a node that was never stopped", desc)
		}
		out.Count("large_restarts", 1)
		out.Count("large_restart_events", len(events))
		n2.VCloseFSM()
		twin.VCloseFSM()
		os.RemoveAll(dir)
	}
}
