package main

import (
	"fmt"
	"os"
	"strings"

	"qedverif/cq"
)

// ---- C08: clean stop / restart of a real node in its own process: shutdown completes (exit status 0, no abort),
// and the reopened node continues exactly where the stopped one left (dense versions, same digests as a node
// that was never stopped - the digests are compared by the fsm command against the model).
func restartCmd(out *cq.Out, seed uint64, tier string) {
	rng := cq.NewRng(seed)
	points := []int{0, 1, 4}
	if tier == "thorough" {
		points = []int{0, 1, 2, 3, 5, 8, 13, 40}
	}
	for _, k := range points {
		dir, _ := os.MkdirTemp(out.Dir, "rs")
		port := freePorts(1)[0]
		desc := map[string]interface{}{"seed": seed, "stop_after_entries": k}
		out.Note(desc)
		total := 0
		ok := true
		for phase := 0; phase < 3 && ok; phase++ {
			n := k
			if phase > 0 {
				n = 1 + rng.Intn(3)
			}
			o, err := runChild(out, childPlan{Dir: dir, Tag: fmt.Sprintf("rs%d-%d", k, phase), Entries: n, Seed: seed + uint64(phase), Raft: true, Port: port, Recover: phase > 0, Close: true}, 0)
			if strings.Contains(o, "STARTERR") || strings.Contains(o, "NOLEADER") {
				out.Count("restart_skipped_infrastructure", 1)
				ok = false
				break
			}
			if err != nil || !strings.Contains(o, "CLOSED") {
				why := "exit: " + fmt.Sprint(err)
				for _, line := range strings.Split(o, "\n") {
					if strings.Contains(line, "Assertion") || strings.HasPrefix(line, "panic:") || strings.Contains(line, "fatal error") || strings.Contains(line, "SIGABRT") {
						why += " | " + line
					}
				}
				out.Violate("C08:shutdown-does-not-complete", fmt.Sprintf("a node that had applied %d entries did not shut down cleanly (phase %d): %.400s", total, phase, why), desc)
				ok = false
				break
			}
			total += n
			out.Case(fmt.Sprintf("restart:%d:%d", k, phase), phase > 0)
		}
		if ok {
			acks := readAcks(dir + "/acks.jsonl")
			for i, a := range acks {
				if a.Version != uint64(i) {
					out.Violate("C08:version-not-dense-across-restart", fmt.Sprintf("across clean restarts the %d-th acknowledged insertion carries version %d", i, a.Version), desc)
					break
				}
			}
			out.Count("restart_points", 1)
		}
		os.RemoveAll(dir)
	}
	out.Sample(map[string]interface{}{"stop_points": points, "kind": "child process: single-node raft cluster, workload, Close(true), exit; three incarnations per point"})
}
