package main

import "qedverif/cq"

func dispatch5(cmd string, out *cq.Out, seed uint64, tier, arg string) bool {
	switch cmd {
	case "transfer":
		transferCmd(out, seed, tier)
		gapCmd(out, seed, tier)
	default:
		return dispatch6(cmd, out, seed, tier, arg)
	}
	return true
}
