package main

import (
	"context"
	"fmt"
	"os"
	"os/exec"
	"time"

	"github.com/bbva/qed/balloon"
	"github.com/bbva/qed/consensus"
	"github.com/bbva/qed/crypto/hashing"
	"github.com/bbva/qed/protocol"
	"github.com/bbva/qed/storage"
	"github.com/bbva/qed/storage/rocks"
	"github.com/hashicorp/raft"
	"qedverif/cq"
)

// ---- C09: a follower brought up to date by state transfer (raft InstallSnapshot -> FSM.Restore -> FetchSnapshot)

func transferCmd(out *cq.Out, seed uint64, tier string) {
	rng := cq.NewRng(seed)
	scenarios := 5
	if tier == "thorough" {
		scenarios = 10
	}
	for sc := 0; sc < scenarios; sc++ {
		// every fourth scenario: a brand-new node joins a leader whose raft snapshot was taken when the log held exactly
		// ONE event (last applied version 0 means both "nothing" and "version 0")
		oneEvent := sc%4 == 3 && sc%5 != 4
		// every fifth scenario: the raft snapshot is taken while the log is still EMPTY; the brand-new node is brought up by a
		// transfer that carries no event at all, and the first events arrive afterwards
		noEvent := sc%5 == 4
		newNode := sc%3 == 1 || oneEvent || noEvent // a brand-new node instead of a returning one
		dir, _ := os.MkdirTemp(out.Dir, "tr")
		var c *cluster
		var err error
		for attempt := 0; attempt < 3 && c == nil; attempt++ {
			c, err = newCluster(dir, 3, 8192, 0)
			if err != nil {
				c = nil
				os.RemoveAll(dir)
				os.MkdirAll(dir, 0755)
			}
		}
		if c == nil {
			out.Count("transfer_skipped_infrastructure", 1)
			continue
		}
		var hist []string
		desc := map[string]interface{}{"seed": seed, "scenario": sc, "new_node": newNode, "history": &hist}
		out.Note(desc)
		ev := 0
		firstSize := 0
		add := func(n int) bool {
			for i := 0; i < n; i++ {
				k := 1 + rng.Intn(3)
				if i == 0 && firstSize > 0 {
					k = firstSize
					firstSize = 0
				}
				var evs [][]byte
				for j := 0; j < k; j++ {
					evs = append(evs, []byte(fmt.Sprintf("t%d-e%d", sc, ev)))
					ev++
				}
				before := len(c.acked)
				snaps, err := c.add(evs)
				if err != nil {
					hist = append(hist, "add failed: "+err.Error())
					return false
				}
				c.checkDense(out, snaps, evs, before, desc)
			}
			hist = append(hist, fmt.Sprintf("%d adds (now %d events)", n, len(c.acked)))
			out.Note(desc)
			return true
		}
		pre := rng.Intn(5) // adds the follower sees before it goes down (0 = it is empty)
		if sc%3 == 0 {
			pre = 1 + rng.Intn(4)
		}
		if oneEvent || noEvent {
			pre = 0
		}
		if pre > 0 && !add(pre) {
			c.stopAll()
			continue
		}
		c.quiesce()
		l := c.leader()
		f := (l + 1) % 3
		c.stop(f)
		hist = append(hist, fmt.Sprintf("follower %d down (leader %d)", f, l))
		if newNode {
			os.RemoveAll(fmt.Sprintf("%s/node%d", dir, f))
			hist = append(hist, "its data directory is wiped: it will come back as a brand-new node")
		}
		if sc%4 != 3 || oneEvent {
			firstSize = 1 // the first entry the follower misses is a single insertion
		}
		missed := 2 + rng.Intn(6)
		if oneEvent {
			missed = 1
		}
		if noEvent {
			missed = 0
		}
		if !add(missed) {
			c.stopAll()
			continue
		}
		// compaction on the nodes that are up: snapshot, no trailing logs
		for i, n := range c.nodes {
			if n != nil {
				if err := n.VForceSnapshot(); err != nil {
					hist = append(hist, fmt.Sprintf("snapshot on %d failed: %v", i, err))
				}
			}
		}
		hist = append(hist, "raft snapshot + log truncation on the live nodes")
		if !noEvent {
			add(rng.Intn(3))
		}
		var fl *failLoadStore
		if sc%3 == 2 || sc == 0 {
			// the first transfer attempt breaks mid-stream: the follower must not count it as installed; raft tries again
			c.wrap = map[int]func(storage.ManagedStore) storage.ManagedStore{f: func(st storage.ManagedStore) storage.ManagedStore {
				fl = &failLoadStore{ManagedStore: st}
				return fl
			}}
			hist = append(hist, "the follower's first state-transfer stream will break")
		}
		if err := c.start(f, false); portTaken(err) {
			out.Count("transfer_skipped_infrastructure", 1)
			c.stopAll()
			continue
		} else if err != nil {
			out.Violate("C09:follower-cannot-rejoin", fmt.Sprintf("the follower could not be restarted after compaction: %v", err), desc)
			c.stopAll()
			continue
		}
		hist = append(hist, fmt.Sprintf("follower %d up again", f))
		out.Note(desc)
		if !c.quiesce() {
			idx, ver := c.nodes[f].VState()
			out.Violate("C09:no-convergence", fmt.Sprintf("the follower did not reach the leader's version after state transfer (follower state index %d version %d balloon %d, leader at %d events)", idx, ver, c.nodes[f].VBalloonVersion(), len(c.acked)), desc)
			c.stopAll()
			continue
		}
		c.checkReplicas(out, rng, "C09", desc)
		// what a kill -9 of the restored follower would leave: a copy of its idle store directory must reopen to the
		// transferred state (the transfer is acknowledged to raft as installed, so nothing will send it again)
		if rn := c.nodes[f]; rn != nil {
			img, _ := os.MkdirTemp(out.Dir, "trimg")
			if exec.Command("cp", "-a", fmt.Sprintf("%s/node%d/db", dir, f), img+"/db").Run() == nil {
				if rs, err := rocks.NewRocksDBStore(img+"/db", 0); err == nil {
					ch := make(chan *protocol.Snapshot, 16)
					drain(ch)
					if bn, err := consensus.VNewFSM(rs, ch); err == nil {
						if got, want := bn.VBalloonVersion(), rn.VBalloonVersion(); got != want || tablesFP(rs) != tablesFP(rn.VStore()) {
							for _, id := range []string{"C09", "C07", "C05"} { // not a prefix any more (C07), versions re-issued later (C05)
								out.Violate(id+":transferred-state-lost-by-crash", fmt.Sprintf("the follower caught up by state transfer (version %d, installed for raft); the image a process kill would leave of its store reopens at version %d with different tables: the transferred range is not durable", want, got), desc)
							}
						}
						bn.VCloseFSM()
					} else {
						rs.Close()
					}
				}
			}
			os.RemoveAll(img)
			out.Count("transfer_crash_images", 1)
		}
		// later insertions applied locally by the restored follower
		add(1 + rng.Intn(4))
		if c.quiesce() {
			c.checkReplicas(out, rng, "C09", desc)
		} else {
			out.Violate("C09:no-convergence", "the restored follower did not apply later insertions", desc)
		}
		// C16 on a replica that was brought up by state transfer: a backup taken there must hold the whole log
		if rn := c.nodes[f]; rn != nil {
			if err := rn.CreateBackup(); err == nil {
				infos := rn.ListBackups()
				rdir, _ := os.MkdirTemp(out.Dir, "trbk")
				if len(infos) > 0 {
					want := len(c.acked)
					if err := rn.VStore().RestoreFromBackup(uint32(infos[len(infos)-1].ID), rdir, rdir); err == nil {
						if rs, err := rocks.NewRocksDBStore(rdir, 0); err == nil {
							ch := make(chan *protocol.Snapshot, 16)
							drain(ch)
							if bn, err := consensus.VNewFSM(rs, ch); err == nil {
								cur := uint64(want - 1)
								d := hashing.NewSha256Hasher().Do(c.events[0])
								var p *balloon.MembershipProof
								var perr error
								if pp, pm := cq.Catch(func() { p, perr = bn.VBalloon().QueryDigestMembershipConsistency(d, cur) }); pp {
									perr = fmt.Errorf("panic: %s", pm)
								}
								if int(bn.VBalloonVersion()) != want || perr != nil || !p.Exists ||
									!p.DigestVerify(d, &balloon.Snapshot{HistoryDigest: c.acked[cur].HistoryDigest, HyperDigest: c.acked[cur].HyperDigest}) {
									out.Violate("C16:backup-on-transferred-replica", fmt.Sprintf("a backup taken on the replica that caught up by state transfer records version %s but restores to %d events (log has %d); event 0 provable=%v", infos[len(infos)-1].Metadata, bn.VBalloonVersion(), want, perr == nil && p != nil && p.Exists), desc)
								}
								bn.VCloseFSM()
							}
						}
					}
				}
				os.RemoveAll(rdir)
			}
		}
		time.Sleep(100 * time.Millisecond)
		out.Count("transfer_scenarios", 1)
		out.Case(fmt.Sprintf("transfer:%d", sc), true)
		out.Case(fmt.Sprintf("transfer-kind:%v:%d", newNode, pre), pre > 0)
		out.Sample(map[string]interface{}{"scenario": sc, "new_node": newNode, "history": hist, "events": len(c.acked)})
		c.stopAll()
		os.RemoveAll(dir)
	}
}

// ---- gaps: the leader must refuse to serve a WAL range that does not connect to what the requester holds
func gapCmd(out *cq.Out, seed uint64, tier string) {
	rng := cq.NewRng(seed)
	trials := 6
	if tier == "thorough" {
		trials = 30
	}
	for t := 0; t < trials; t++ {
		dir, _ := os.MkdirTemp(out.Dir, "gap")
		port := freePorts(1)[0]
		n, _, err := startNode(nodeOpts{id: 0, name: "gap", dir: dir, raftPort: port, bootstrap: true, snapThr: 8192, trailing: 10240})
		if err != nil || !waitLeader(n) {
			out.Count("gap_skipped_infrastructure", 1)
			continue
		}
		m := 3 + rng.Intn(5)
		sizes := make([]int, m)
		seqAfter := make([]uint64, m+1) // WAL sequence number after entry j-1 (seqAfter[0]: before any add)
		verAfter := make([]uint64, m+1) // number of events after entry j-1
		seqAfter[0] = n.VStore().LastWALSequenceNumber()
		for j := 0; j < m; j++ {
			k := 1
			if !(j == 0 && t%2 == 0) && rng.Intn(2) == 0 { // even trials: the first entry holds exactly one event
				k = 2 + rng.Intn(3)
			}
			sizes[j] = k
			var evs [][]byte
			for x := 0; x < k; x++ {
				evs = append(evs, []byte(fmt.Sprintf("g%d-%d-%d", t, j, x)))
			}
			if _, err := n.AddBulk(evs); err != nil {
				panic(err)
			}
			seqAfter[j+1] = n.VStore().LastWALSequenceNumber()
			verAfter[j+1] = verAfter[j] + uint64(k)
		}
		end := seqAfter[m]
		// requester holds the first h entries; the leader's usable WAL starts after entry p-1
		for h := 0; h <= m; h++ {
			for p := h; p <= m; p++ {
				last := uint64(0)
				if h > 0 {
					last = verAfter[h] - 1
				}
				buf, err := n.VFetch(last, seqAfter[p], end)
				desc := map[string]interface{}{"seed": seed, "trial": t, "entry_sizes": sizes, "requester_has_entries": h, "leader_wal_starts_after_entry": p}
				out.Case(fmt.Sprintf("gap:%d:%d:%d", t, h, p), p > h)
				if p > h && p < m && err == nil && len(buf) > 0 {
					sig := "C09:gap-served"
					if h == 0 && verAfter[p] == 1 {
						sig = "C09:gap-served:new-node-one-event-missing"
					}
					out.Violate(sig, fmt.Sprintf("a transfer leaving a gap was served: the requester holds %d entries (%d events, reports last version %d), the stream starts with entry %d (%d events before it)", h, verAfter[h], last, p, verAfter[p]), desc)
				}
				if p > h && p < m && err == nil && len(buf) == 0 {
					out.Violate("C09:gap-answered-as-complete-empty-transfer", fmt.Sprintf("a transfer that cannot be completed was answered as a successful stream of nothing instead of being refused: the requester holds %d entries (%d events), the leader's usable WAL starts after entry %d of %d", h, verAfter[h], p, m), desc)
				}
				if p == h && err != nil {
					out.Violate("C09:contiguous-transfer-refused", fmt.Sprintf("a transfer that connects exactly to the requester's state was refused: %v", err), desc)
				}
			}
		}
		n.Close(true)
		os.RemoveAll(dir)
		out.Count("gap_trials", 1)
	}
	out.Sample(map[string]interface{}{"kind": "all (requester prefix h, WAL start p) pairs of a single-node leader with 3..7 entries"})
}

// transferLive: a follower that stays UP (warm in-memory caches) while it is out of the cluster configuration, misses
// insertions - some of them sharing hyper cache tiles with events it already holds - and is brought back by
// InstallSnapshot -> Restore on the live process.  Also: a bulk of more than 1000 events reaching a node only through
// state transfer.
func transferLive(out *cq.Out, rng *cq.Rng, seed uint64, tier string) {
	rounds := 1
	if tier == "thorough" {
		rounds = 3
	}
	for r := 0; r < rounds; r++ {
		dir, _ := os.MkdirTemp(out.Dir, "trl")
		c, err := newCluster(dir, 3, 8192, 0)
		if err != nil {
			out.Count("transfer_skipped_infrastructure", 1)
			continue
		}
		var hist []string
		desc := map[string]interface{}{"seed": seed, "live_round": r, "history": &hist}
		out.Note(desc)
		ev := 0
		mk := func(k int) [][]byte {
			var evs [][]byte
			for j := 0; j < k; j++ {
				evs = append(evs, []byte(fmt.Sprintf("tl%d-e%d", r, ev)))
				ev++
			}
			return evs
		}
		addDense := func(evs [][]byte) bool {
			before := len(c.acked)
			snaps, err := c.add(evs)
			if err != nil {
				hist = append(hist, "add failed: "+err.Error())
				return false
			}
			c.checkDense(out, snaps[:1], evs[:1], before, desc)
			return true
		}
		ok := addDense(mk(20)) && addDense(mk(20))
		if !ok || !c.quiesce() {
			out.Count("transfer_skipped_infrastructure", 1)
			c.stopAll()
			continue
		}
		// events whose digests fall into cache tiles (first 20 bits) the follower already holds
		have := map[uint32]bool{}
		for _, e := range c.events {
			d := hashing.NewSha256Hasher().Do(e)
			have[uint32(d[0])<<12|uint32(d[1])<<4|uint32(d[2])>>4] = true
		}
		var shared [][]byte
		for k := 0; len(shared) < 6 && k < 4000000; k++ {
			e := []byte(fmt.Sprintf("tl%d-shared-%d", r, k))
			d := hashing.NewSha256Hasher().Do(e)
			if have[uint32(d[0])<<12|uint32(d[1])<<4|uint32(d[2])>>4] {
				shared = append(shared, e)
			}
		}
		l := c.leader()
		f := (l + 1) % 3
		fid := fmt.Sprintf("n_%d", f)
		if err := c.nodes[l].VRaft().RemoveServer(raft.ServerID(fid), 0, 0).Error(); err != nil {
			out.Count("transfer_skipped_infrastructure", 1)
			c.stopAll()
			continue
		}
		hist = append(hist, fmt.Sprintf("follower %d removed from the configuration, still running (leader %d)", f, l))
		// the two remaining nodes go on; a quiescence test would wait for the removed one, so look at them only
		removed := c.nodes[f]
		c.nodes[f] = nil
		ok = addDense(shared) && addDense(mk(1300)) && addDense(mk(3))
		hist = append(hist, fmt.Sprintf("while it is out: %d events in its own cache tiles, a bulk of 1300, 3 more (now %d events)", len(shared), len(c.acked)))
		for i, n := range c.nodes {
			if n != nil {
				if err := n.VForceSnapshot(); err != nil {
					hist = append(hist, fmt.Sprintf("snapshot on %d failed: %v", i, err))
				}
			}
		}
		hist = append(hist, "raft snapshot + log truncation on the members")
		c.nodes[f] = removed
		if !ok || c.indet {
			out.Count("transfer_skipped_infrastructure", 1)
			c.stopAll()
			continue
		}
		joined := false
		for t := 0; t < 40 && !joined; t++ {
			ll := c.leader()
			if ll < 0 || ll == f {
				time.Sleep(200 * time.Millisecond)
				continue
			}
			_, err := c.nodes[ll].JoinCluster(context.Background(), &consensus.RaftJoinRequest{NodeId: fid, RaftAddr: fmt.Sprintf("127.0.0.1:%d", c.ports[f])})
			if err == nil {
				joined = true
			} else {
				time.Sleep(200 * time.Millisecond)
			}
		}
		if !joined {
			out.Count("transfer_skipped_infrastructure", 1)
			c.stopAll()
			continue
		}
		hist = append(hist, fmt.Sprintf("follower %d joins again (same process, warm caches)", f))
		out.Note(desc)
		if !c.quiesce() {
			idx, ver := c.nodes[f].VState()
			out.Violate("C09:no-convergence", fmt.Sprintf("the live follower did not reach the leader's version after being brought back by state transfer (its state: index %d version %d balloon %d; the log has %d events)", idx, ver, c.nodes[f].VBalloonVersion(), len(c.acked)), desc)
			c.stopAll()
			continue
		}
		c.checkReplicas(out, rng, "C09", desc)
		// proofs of the events that share tiles, from the returned follower
		cur := uint64(len(c.acked) - 1)
		for i := 40; i < 40+len(shared); i++ {
			d := hashing.NewSha256Hasher().Do(c.events[i])
			okp := false
			cq.Catch(func() {
				p, err := c.nodes[f].QueryDigestMembershipConsistency(d, cur)
				okp = err == nil && p.Exists && p.DigestVerify(d, &balloon.Snapshot{HistoryDigest: c.acked[cur].HistoryDigest, HyperDigest: c.acked[cur].HyperDigest})
			})
			if !okp {
				out.Violate("C09:replica-proof-does-not-verify", fmt.Sprintf("the returned follower's membership proof for event %d (inserted while it was out, in a cache tile it already held) does not verify against the leader's snapshot", i), desc)
				break
			}
		}
		addDense(mk(2))
		if c.quiesce() {
			c.checkReplicas(out, rng, "C09", desc)
		} else if !c.indet {
			out.Violate("C09:no-convergence", "the returned follower did not apply later insertions: "+c.versions(), desc)
		}
		out.Count("transfer_live_rounds", 1)
		out.Sample(map[string]interface{}{"live_round": r, "history": hist})
		c.stopAll()
		os.RemoveAll(dir)
	}
}
