// qedh-node: harness commands over the packages of BBVA/QED that need RocksDB (scratch copy with the link shim).
package main

import (
	"flag"
	"fmt"
	"os"

	"qedverif/cq"
)

func main() {
	cmd := os.Args[1]
	fs := flag.NewFlagSet(cmd, flag.ExitOnError)
	seed := fs.Uint64("seed", 1, "")
	tier := fs.String("tier", "quick", "")
	dir := fs.String("out", ".", "")
	arg := fs.String("arg", "", "")
	fs.Parse(os.Args[2:])
	out := cq.NewOut(*dir)
	switch cmd {
	case "store":
		rocksStoreCmd(out, *seed, *tier)
	default:
		if !dispatch(cmd, out, *seed, *tier, *arg) {
			fmt.Fprintln(os.Stderr, "unknown command", cmd)
			os.Exit(2)
		}
	}
	if cmd != "crashchild" {
		out.Done()
		out.Write()
	}
}
