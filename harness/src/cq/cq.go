// Package cq: helpers shared by the harness commands: Coq literal emission, outcome classification,
// JSONL traces.
package cq

import (
	"runtime/debug"
	"bufio"
	"crypto/sha256"
	"encoding/json"
	"fmt"
	"os"
	"strings"
)

// Bytes renders a byte string as a Gallina list of primitive ints (uint63 scope must be open).
func Bytes(b []byte) string {
	if len(b) == 0 {
		return "[]"
	}
	var sb strings.Builder
	sb.WriteString("[")
	for i, x := range b {
		if i > 0 {
			sb.WriteString(";")
		}
		fmt.Fprintf(&sb, "%d", x)
	}
	sb.WriteString("]")
	return sb.String()
}

func N(x uint64) string { return fmt.Sprintf("%d%%N", x) }

func List(items []string) string {
	if len(items) == 0 {
		return "[]"
	}
	return "[" + strings.Join(items, ";\n   ") + "]"
}

func Bool(b bool) string {
	if b {
		return "true"
	}
	return "false"
}

func Sha(parts ...[]byte) []byte {
	h := sha256.New()
	for _, p := range parts {
		h.Write(p)
	}
	return h.Sum(nil)
}

// Out collects what a harness command reports back to bin/check.
type Out struct {
	Dir        string
	Violations []Violation       `json:"violations"`
	Stats      map[string]int    `json:"stats"`
	Samples    []interface{}     `json:"samples"`
	Info       map[string]string `json:"info"`
	Distinct   map[string]bool   `json:"-"`
}

type Violation struct {
	Signature string      `json:"signature"`
	What      string      `json:"what"`
	Replay    interface{} `json:"replay"`
}

func NewOut(dir string) *Out {
	return &Out{Dir: dir, Stats: map[string]int{}, Info: map[string]string{}, Distinct: map[string]bool{}}
}

func (o *Out) Violate(sig, what string, replay interface{}) {
	for _, v := range o.Violations {
		if v.Signature == sig {
			return
		}
	}
	o.Violations = append(o.Violations, Violation{sig, what, replay})
}

func (o *Out) Count(k string, n int) { o.Stats[k] += n }

// Case registers one explored case; key identifies it for the distinct count, nontrivial per the command's rule.
func (o *Out) Case(key string, nontrivial bool) {
	o.Stats["evaluations"]++
	if nontrivial && !o.Distinct[key] {
		o.Distinct[key] = true
		o.Stats["distinct_nontrivial"]++
	}
}

func (o *Out) Sample(s interface{}) {
	if len(o.Samples) < 6 {
		o.Samples = append(o.Samples, s)
	}
}

func (o *Out) Write() {
	f, err := os.Create(o.Dir + "/result.json")
	if err != nil {
		panic(err)
	}
	defer f.Close()
	w := bufio.NewWriter(f)
	enc := json.NewEncoder(w)
	enc.SetIndent("", " ")
	if err := enc.Encode(o); err != nil {
		panic(err)
	}
	w.Flush()
}

// Rng: splitmix64, the single PRNG every random choice derives from.
type Rng struct{ s uint64 }

func NewRng(seed uint64) *Rng {
	// scramble the seed first: consecutive seeds must not yield shifted copies of one stream
	z := seed + 0xD1B54A32D192ED03
	z = (z ^ (z >> 30)) * 0xBF58476D1CE4E5B9
	z = (z ^ (z >> 27)) * 0x94D049BB133111EB
	return &Rng{z ^ (z >> 31)}
}
func (r *Rng) U64() uint64 {
	r.s += 0x9E3779B97F4A7C15
	z := r.s
	z = (z ^ (z >> 30)) * 0xBF58476D1CE4E5B9
	z = (z ^ (z >> 27)) * 0x94D049BB133111EB
	return z ^ (z >> 31)
}
func (r *Rng) Intn(n int) int {
	if n <= 0 {
		return 0
	}
	return int(r.U64() % uint64(n))
}
func (r *Rng) Bytes(n int) []byte {
	b := make([]byte, n)
	for i := range b {
		b[i] = byte(r.U64())
	}
	return b
}

// Catch runs f and classifies a panic.
func Catch(f func()) (panicked bool, msg string) {
	defer func() {
		if r := recover(); r != nil {
			panicked = true
			msg = fmt.Sprint(r)
		}
	}()
	f()
	return
}

// CatchSite runs f; on panic returns the first stack frame inside BBVA/QED (function name) and the message.
func CatchSite(f func()) (panicked bool, site, msg string) {
	defer func() {
		if r := recover(); r != nil {
			panicked = true
			msg = fmt.Sprint(r)
			site = "unknown"
			for _, line := range strings.Split(string(debugStack()), "\n") {
				if strings.Contains(line, "github.com/bbva/qed") && !strings.HasPrefix(line, "\t") {
					site = strings.TrimSpace(line)
					if i := strings.Index(site, "("); i > 0 {
						site = site[:i]
					}
					site = strings.TrimPrefix(site, "github.com/bbva/qed")
					site = strings.TrimPrefix(site, "@v0.0.0")
					break
				}
			}
		}
	}()
	f()
	return
}

func debugStack() []byte { return debug.Stack() }

// Note records what the harness is doing, so that a process death (a panic in a goroutine of the code under
// test cannot be recovered) can be reported with the scenario that caused it.
func (o *Out) Note(v interface{}) {
	b, _ := json.Marshal(v)
	os.WriteFile(o.Dir+"/current_input.json", b, 0644)
}

// Done removes the note: the command finished.
func (o *Out) Done() { os.Remove(o.Dir + "/current_input.json") }
