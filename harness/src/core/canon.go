package main

import (
	"bytes"
	"fmt"
	"os"
	"strings"

	"github.com/bbva/qed/balloon"
	"github.com/bbva/qed/crypto/hashing"
	"qedverif/cq"
)

// C04 (and the balloon part of C08): the same event sequence inserted under different groupings into
// Add/AddBulk calls and with close/reopen at arbitrary points must yield the same digests.

func (r *bRun) reopen() {
	r.b.Close()
	b, err := balloon.NewBalloon(r.store, hashing.NewSha256Hasher)
	if err != nil {
		panic(err)
	}
	r.b = b
}

type canonPlan struct {
	sizes    []int // call sizes; 0 = single Add
	restarts map[int]bool
	name     string
}

func canonCmd(out *cq.Out, seed uint64, tier string) {
	rng := cq.NewRng(seed)
	// every balloon instance allocates the 1.1 GB batch cache of the hyper tree: the quick tier keeps their number small
	ns := []int{1, 2, 5, 9, 17, 30}
	nplans := 3
	if tier == "thorough" {
		ns = []int{1, 2, 5, 9, 17, 30, 33, 64, 100, 130}
	}
	var cases []string
	for ci, n := range ns {
		// distinct events, many sharing long prefixes
		var events [][]byte
		seen := map[string]bool{}
		tmp := &bRun{}
		for len(events) < n {
			e := genEvent(rng, tmp, out)
			if seen[string(e)] {
				continue
			}
			seen[string(e)] = true
			events = append(events, e)
			tmp.events = events
		}
		var plans []canonPlan
		single := canonPlan{name: "singles", restarts: map[int]bool{}}
		for i := 0; i < n; i++ {
			single.sizes = append(single.sizes, 0)
		}
		plans = append(plans, single)
		for p := 0; p < nplans; p++ {
			pl := canonPlan{name: fmt.Sprintf("partition%d", p), restarts: map[int]bool{}}
			left := n
			for left > 0 {
				k := 1 + rng.Intn(8)
				if p == nplans-1 && rng.Intn(2) == 0 {
					k = 1 + rng.Intn(n) // large bulks
				}
				if k > left {
					k = left
				}
				if k == 1 && rng.Intn(2) == 0 {
					k = 0
				}
				pl.sizes = append(pl.sizes, k)
				if k == 0 {
					left--
				} else {
					left -= k
				}
				if p >= 1 && rng.Intn(3) == 0 {
					pl.restarts[len(pl.sizes)] = true
				}
			}
			if p >= 1 {
				pl.restarts[0] = true // reopen an empty balloon
			}
			plans = append(plans, pl)
		}
		var refHist, refHyper [][]byte // per version (plan singles)
		for pi, pl := range plans {
			r := newBRun()
			var steps []string
			pos := 0
			if pl.restarts[0] {
				r.reopen()
			}
			var desc []string
			for ci2, k := range pl.sizes {
				var evs [][]byte
				if k == 0 {
					evs = events[pos : pos+1]
				} else {
					evs = events[pos : pos+k]
				}
				snaps := r.add(evs, k == 0)
				if addFailed(out, r, map[string]interface{}{"case": ci, "seed": seed, "plan": pl.name, "sizes": pl.sizes, "restarts": pl.restarts, "call": ci2}) {
					break
				}
				pos += len(evs)
				var evl []string
				for _, e := range evs {
					evl = append(evl, cq.Bytes(e))
				}
				steps = append(steps, fmt.Sprintf("SAdd %s %s", cq.List(evl), cq.Bytes(snapFP(snaps))))
				desc = append(desc, fmt.Sprintf("%d", k))
				for _, s := range snaps {
					if pi == 0 {
						refHist = append(refHist, s.HistoryDigest)
						refHyper = append(refHyper, s.HyperDigest)
					} else if !bytes.Equal(s.HistoryDigest, refHist[s.Version]) {
						out.Violate("C04:history-depends-on-grouping-or-restart", fmt.Sprintf("history digest of version %d differs between plan %s and single adds (n=%d)", s.Version, pl.name, n),
							map[string]interface{}{"case": ci, "seed": seed, "plan": pl.name, "sizes": pl.sizes, "restarts": pl.restarts, "version": s.Version})
					}
				}
				last := snaps[len(snaps)-1]
				if pi > 0 && !bytes.Equal(last.HyperDigest, refHyper[last.Version]) {
					out.Violate("C04:hyper-depends-on-grouping-or-restart", fmt.Sprintf("hyper digest after version %d differs between plan %s and single adds (n=%d, distinct events)", last.Version, pl.name, n),
						map[string]interface{}{"case": ci, "seed": seed, "plan": pl.name, "sizes": pl.sizes, "restarts": pl.restarts, "version": last.Version})
				}
				out.Case(fmt.Sprintf("call:%d:%d:%d", ci, pi, ci2), len(evs) > 1 || pl.restarts[ci2+1])
				if pl.restarts[ci2+1] {
					r.reopen()
					desc = append(desc, "R")
					out.Count("restarts", 1)
					// after a reopen old events must still be provable (C08 balloon part)
					ei := rng.Intn(pos)
					q := uint64(pos - 1)
					o := r.query(events[ei], &q)
					okv := -1
					if o.class == 0 && o.exists {
						okv, _ = wireVerify(o.proof, nil, events[ei], refHist[q], refHyper[q])
					}
					if okv != 0 {
						out.Violate("C08:proof-after-reopen", fmt.Sprintf("after close/reopen at version %d the proof for event %d does not verify against the snapshots issued before (class %d verdict %d)", pos-1, ei, o.class, okv),
							map[string]interface{}{"case": ci, "seed": seed, "plan": pl.name, "sizes": pl.sizes, "restarts": pl.restarts})
					}
					steps = append(steps, fmt.Sprintf("SQuery %s %s %s", cq.Bytes(events[ei]), optN(&q), o.coq()))
				}
			}
			out.Count("plans", 1)
			out.Count("events", n)
			out.Sample(map[string]interface{}{"case": ci, "events": n, "plan": pl.name, "calls": strings.Join(desc, ",")})
			if pi > 0 {
				cases = append(cases, cq.List(steps))
			}
			r.close()
		}
	}
	canonLarge(out, rng, seed, tier)
	f, _ := os.Create(out.Dir + "/cases.v")
	fmt.Fprintf(f, "From Coq Require Import List NArith Uint63.\nFrom QV Require Import Run.HistRun Run.BalloonRun.\nImport ListNotations.\nOpen Scope uint63_scope.\n")
	fmt.Fprintf(f, "Definition cases : list (list step) := %s.\n", cq.List(cases))
	fmt.Fprintf(f, "Definition R := Eval vm_compute in run_balloon_cases cases.\nPrint R.\n")
	f.Close()
}

// canonLarge: a log of more than 1000 events (thorough: 40000, more entries than any bounded cache could hold), a node
// that is closed and reopened on the same store and a twin that never stops: the snapshots of all later insertions must
// be identical, and events inserted before the reopen must still be provable on the reopened node.  (Go against Go:
// the digests of the never-stopped twin are themselves compared with the model on the small cases.)
func canonLarge(out *cq.Out, rng *cq.Rng, seed uint64, tier string) {
	n := 1300 + rng.Intn(200)
	if tier == "thorough" {
		n = 40000
	}
	desc := map[string]interface{}{"seed": seed, "large_log_events": n}
	out.Note(desc)
	a, b := newBRun(), newBRun()
	var events [][]byte
	mk := func(k int) [][]byte {
		var evs [][]byte
		for j := 0; j < k; j++ {
			evs = append(evs, rng.Bytes(32))
		}
		return evs
	}
	first := true
	for len(events) < n {
		evs := mk(100 + rng.Intn(200))
		if first {
			// one bulk several times larger than the history tree's write cache (300 nodes): subtree roots frozen early in
			// the bulk are still needed hundreds of events later, before anything of the bulk reaches the store
			evs = mk(700 + rng.Intn(300))
			first = false
		}
		sa := a.add(evs, false)
		sb := b.add(evs, false)
		if a.addPanic != "" || b.addPanic != "" || len(sa) != len(sb) {
			out.Violate("C04:hyper-depends-on-grouping-or-restart", "insertion failed on the large log: "+a.addPanic+b.addPanic, desc)
			return
		}
		events = append(events, evs...)
	}
	last := a.snaps[len(a.snaps)-1]
	b.reopen()
	// old events on the reopened node
	for t := 0; t < 30; t++ {
		ei := rng.Intn(len(events))
		q := last.Version
		o := b.query(events[ei], &q)
		okv := -1
		if o.class == 0 && o.exists {
			okv, _ = wireVerify(o.proof, nil, events[ei], last.HistoryDigest, last.HyperDigest)
		}
		if okv != 0 {
			for _, id := range []string{"C08", "C01"} { // a restart that is visible (C08); an added event without a verifying proof (C01)
				out.Violate(id+":proof-after-reopen", fmt.Sprintf("after close/reopen of a %d-event log the proof for event %d does not verify against the snapshot issued before (class %d verdict %d)", len(events), ei, o.class, okv), desc)
			}
			break
		}
		out.Case(fmt.Sprintf("large:proof:%d", t), true)
	}
	// later insertions: reopened node against the twin
	for t := 0; t < 6; t++ {
		evs := mk(1 + rng.Intn(4))
		single := len(evs) == 1
		sa := a.add(evs, single)
		sb := b.add(evs, single)
		if a.addPanic != "" || b.addPanic != "" || len(sa) != len(sb) {
			out.Violate("C04:hyper-depends-on-grouping-or-restart", "insertion after the reopen of a large log failed: "+a.addPanic+b.addPanic, desc)
			break
		}
		bad := false
		for i := range sa {
			if !bytes.Equal(sa[i].HistoryDigest, sb[i].HistoryDigest) {
				out.Violate("C04:history-depends-on-grouping-or-restart", fmt.Sprintf("history digest of version %d differs between a node reopened after %d events and one that never stopped", sa[i].Version, n), desc)
				bad = true
			}
			if !bytes.Equal(sa[i].HyperDigest, sb[i].HyperDigest) {
				out.Violate("C04:hyper-depends-on-grouping-or-restart", fmt.Sprintf("hyper digest of version %d differs between a node reopened after %d events and one that never stopped", sa[i].Version, n), desc)
				bad = true
			}
		}
		out.Case(fmt.Sprintf("large:add:%d", t), true)
		if bad {
			break
		}
	}
	// and a third node opened now on the twin's store must agree with the twin, which has run since the beginning
	// (a bounded in-memory structure that forgets shows up here)
	a2 := a
	a2.reopen()
	evs := mk(2)
	sa := a2.add(evs, false)
	sb := b.add(evs, false)
	if len(sa) == len(sb) && len(sa) > 0 && !bytes.Equal(sa[len(sa)-1].HyperDigest, sb[len(sb)-1].HyperDigest) {
		out.Violate("C04:hyper-depends-on-grouping-or-restart", "two nodes holding the same large log issue different hyper digests for the same next insertion", desc)
	}
	out.Count("large_log_events", n)
	a.close()
	b.close()
}

// canonLargeCmd: only the large-log restart scenario (used by checks that do not need the grouping plans).
func canonLargeCmd(out *cq.Out, seed uint64, tier string) {
	canonLarge(out, cq.NewRng(seed), seed, tier)
}
