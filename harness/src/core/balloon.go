package main

import (
	"bytes"
	"encoding/binary"
	"encoding/hex"
	"fmt"
	"math/bits"
	"os"
	"sync"

	"sort"
	"strconv"
	"strings"

	"github.com/bbva/qed/balloon"
	"github.com/bbva/qed/crypto/hashing"
	"github.com/bbva/qed/protocol"
	"github.com/bbva/qed/storage/bplus"
	"qedverif/cq"
)

// ---- balloon level: C01, C02, C04 (and the verifier streams of C12/C13 reuse the helpers)

type bRun struct {
	b        *balloon.Balloon
	store    *bplus.BPlusTreeStore
	events   [][]byte            // by version
	snaps    []*balloon.Snapshot // by version
	last     map[string]uint64   // digest -> version the log reports for it
	callEnds []uint64            // version count after each call
	addPanic string              // set when Add/AddBulk panicked
}

// addFailed reports an insertion that panicked (a violation of C01, C04 and C11 alike).
func addFailed(out *cq.Out, r *bRun, replay map[string]interface{}) bool {
	if r.addPanic == "" {
		return false
	}
	for _, id := range []string{"C01", "C04", "C05", "C08", "C11"} {
		out.Violate(id+":add-panic", fmt.Sprintf("Balloon.Add/AddBulk panicked after %d events: %.200s", len(r.events), r.addPanic), replay)
	}
	return true
}

type keptProof struct {
	proof       *balloon.MembershipProof
	d           []byte
	hist, hyper hashing.Digest
	ei          int
	qv          uint64
	n           int
}

func newBRun() *bRun {
	store := bplus.NewBPlusTreeStore()
	b, err := balloon.NewBalloon(store, hashing.NewSha256Hasher)
	if err != nil {
		panic(err)
	}
	return &bRun{b: b, store: store, last: map[string]uint64{}}
}

func (r *bRun) close() {
	r.b.Close()
	r.store.Close()
	// (no debug.FreeOSMemory here: re-faulting the 1.1 GB batch cache of the next balloon costs ~3 s; the freed span is reused)
}

// add performs Add (single==true, one event) or AddBulk and persists the mutations.
func (r *bRun) add(evs [][]byte, single bool) []*balloon.Snapshot {
	var snaps []*balloon.Snapshot
	panicked, msg := cq.Catch(func() { snaps = r.addRaw(evs, single) })
	if panicked {
		r.addPanic = msg
		return nil
	}
	return snaps
}

func (r *bRun) addRaw(evs [][]byte, single bool) []*balloon.Snapshot {
	var snaps []*balloon.Snapshot
	if single {
		s, muts, err := r.b.Add(evs[0])
		if err != nil {
			panic(err)
		}
		r.store.Mutate(muts, nil)
		snaps = []*balloon.Snapshot{s}
	} else {
		var ds []hashing.Digest
		for _, e := range evs {
			ds = append(ds, e)
		}
		ss, muts, err := r.b.AddBulk(ds)
		if err != nil {
			panic(err)
		}
		r.store.Mutate(muts, nil)
		snaps = ss
	}
	seen := map[string]bool{}
	for i, s := range snaps {
		r.events = append(r.events, evs[i])
		r.snaps = append(r.snaps, s)
		if !seen[string(evs[i])] { // inside one bulk the first occurrence wins
			r.last[string(evs[i])] = s.Version
			seen[string(evs[i])] = true
		}
	}
	r.callEnds = append(r.callEnds, uint64(len(r.events)))
	return snaps
}

func snapFP(snaps []*balloon.Snapshot) []byte {
	var buf []byte
	for _, s := range snaps {
		buf = append(buf, s.EventDigest...)
		buf = append(buf, s.HistoryDigest...)
		buf = append(buf, s.HyperDigest...)
		var v [8]byte
		binary.BigEndian.PutUint64(v[:], s.Version)
		buf = append(buf, v[:]...)
	}
	return cq.Sha(buf)
}

// ---- canonical forms of the wire maps
type wEntry struct {
	key []byte // sort key
	id  string
	val []byte
}

func hyperEntries(m map[string]hashing.Digest) []wEntry {
	var es []wEntry
	for id, v := range m {
		parts := strings.Split(id, "|")
		var k []byte
		if len(parts) == 2 {
			h, _ := strconv.Atoi(parts[1])
			idx, _ := hex.DecodeString(strings.TrimPrefix(parts[0], "0x"))
			k = append([]byte{byte(h >> 8), byte(h)}, idx...)
		} else {
			k = []byte(id)
		}
		es = append(es, wEntry{k, id, append([]byte{}, v...)})
	}
	sort.Slice(es, func(i, j int) bool { return bytes.Compare(es[i].key, es[j].key) < 0 })
	return es
}

func hyperFP(m map[string]hashing.Digest) []byte {
	buf := []byte{1}
	for _, e := range hyperEntries(m) {
		buf = append(buf, e.key...)
		buf = append(buf, e.val...)
	}
	return cq.Sha(buf)
}

func histEntries(m map[string]hashing.Digest) []wEntry {
	var es []wEntry
	for id, v := range m {
		parts := strings.Split(id, "|")
		k := make([]byte, 10)
		if len(parts) == 2 {
			i, _ := strconv.ParseUint(parts[0], 10, 64)
			h, _ := strconv.ParseUint(parts[1], 10, 16)
			binary.BigEndian.PutUint64(k[:8], i)
			binary.BigEndian.PutUint16(k[8:], uint16(h))
		}
		es = append(es, wEntry{k, id, append([]byte{}, v...)})
	}
	sort.Slice(es, func(i, j int) bool { return bytes.Compare(es[i].key, es[j].key) < 0 })
	return es
}

func histFP(m map[string]hashing.Digest) []byte {
	buf := []byte{0}
	for _, e := range histEntries(m) {
		buf = append(buf, e.key...)
		buf = append(buf, e.val...)
	}
	return cq.Sha(buf)
}

func entriesToMap(es []wEntry) map[string]hashing.Digest {
	m := map[string]hashing.Digest{}
	for _, e := range es {
		m[e.id] = e.val
	}
	return m
}

// ---- queries
type qObs struct {
	class                  int
	exists                 bool
	current, query, actual uint64
	hyperFP, histFP        []byte
	proof                  *balloon.MembershipProof
}

func (o qObs) coq() string {
	return fmt.Sprintf("{| o_class := %s; o_exists := %s; o_current := %s; o_query := %s; o_actual := %s; o_hyper_fp := %s; o_hist_fp := %s |}",
		cq.N(uint64(o.class)), cq.Bool(o.exists), cq.N(o.current), cq.N(o.query), cq.N(o.actual), cq.Bytes(o.hyperFP), cq.Bytes(o.histFP))
}

func optN(q *uint64) string {
	if q == nil {
		return "None"
	}
	return "(Some " + cq.N(*q) + ")"
}

func (r *bRun) query(d []byte, q *uint64) qObs {
	var p *balloon.MembershipProof
	var err error
	panicked, _ := cq.Catch(func() {
		if q == nil {
			p, err = r.b.QueryDigestMembership(d)
		} else {
			p, err = r.b.QueryDigestMembershipConsistency(d, *q)
		}
	})
	if panicked {
		return qObs{class: 2}
	}
	if err != nil {
		return qObs{class: 1}
	}
	o := qObs{class: 0, exists: p.Exists, current: p.CurrentVersion, query: p.QueryVersion, actual: p.ActualVersion, proof: p}
	o.hyperFP = hyperFP(p.HyperProof.AuditPath)
	if p.HistoryProof != nil {
		o.histFP = histFP(p.HistoryProof.AuditPath.Serialize())
	}
	return o
}

// ---- alterations of the wire form
type malt struct {
	kind string
	k    uint64
	b    bool
	d    []byte
	h    uint16 // histadd: height of the injected position
}

func (a malt) coq() string {
	switch a.kind {
	case "exists":
		return "MExists " + cq.Bool(a.b)
	case "current":
		return "MCurrent " + cq.N(a.k)
	case "query":
		return "MQuery " + cq.N(a.k)
	case "actual":
		return "MActual " + cq.N(a.k)
	case "key":
		return "MKey " + cq.Bytes(a.d)
	case "histentry":
		return "MHistEntry " + cq.N(a.k)
	case "histdrop":
		return "MHistDrop " + cq.N(a.k)
	case "histset":
		return "MHistSet " + cq.N(a.k) + " " + cq.Bytes(a.d)
	case "histadd":
		return fmt.Sprintf("MHistAdd %s %d%%nat %s", cq.N(a.k), a.h, cq.Bytes(a.d))
	case "hyperentry":
		return "MHyperEntry " + cq.N(a.k)
	case "hyperdrop":
		return "MHyperDrop " + cq.N(a.k)
	case "hyperset":
		return "MHyperSet " + cq.N(a.k) + " " + cq.Bytes(a.d)
	case "histclear":
		return "MHistClear"
	case "hyperclear":
		return "MHyperClear"
	}
	panic("malt " + a.kind)
}

func flipFirst(v []byte) []byte {
	w := append([]byte{}, v...)
	if len(w) == 0 {
		return []byte{1}
	}
	w[0] ^= 1
	return w
}

func applyMalt(mr *protocol.MembershipResult, a malt) {
	switch a.kind {
	case "exists":
		mr.Exists = a.b
	case "current":
		mr.CurrentVersion = a.k
	case "query":
		mr.QueryVersion = a.k
	case "actual":
		mr.ActualVersion = a.k
	case "key":
		mr.KeyDigest = a.d
	case "histentry", "histdrop", "histset":
		es := histEntries(mr.History)
		if int(a.k) < len(es) {
			switch a.kind {
			case "histentry":
				es[a.k].val = flipFirst(es[a.k].val)
			case "histset":
				es[a.k].val = a.d
			default:
				es = append(es[:a.k:a.k], es[a.k+1:]...)
			}
		}
		mr.History = entriesToMap(es)
	case "hyperentry", "hyperdrop", "hyperset":
		es := hyperEntries(mr.Hyper)
		if int(a.k) < len(es) {
			switch a.kind {
			case "hyperentry":
				es[a.k].val = flipFirst(es[a.k].val)
			case "hyperset":
				es[a.k].val = a.d
			default:
				es = append(es[:a.k:a.k], es[a.k+1:]...)
			}
		}
		mr.Hyper = entriesToMap(es)
	case "histadd":
		if mr.History == nil {
			mr.History = map[string]hashing.Digest{}
		}
		mr.History[fmt.Sprintf("%d|%d", a.k, a.h)] = a.d
	case "histclear":
		mr.History = map[string]hashing.Digest{}
	case "hyperclear":
		mr.Hyper = map[string]hashing.Digest{}
	}
}

func cloneResult(mr *protocol.MembershipResult) *protocol.MembershipResult {
	c := *mr
	c.Hyper = map[string]hashing.Digest{}
	for k, v := range mr.Hyper {
		c.Hyper[k] = append([]byte{}, v...)
	}
	c.History = map[string]hashing.Digest{}
	for k, v := range mr.History {
		c.History[k] = append([]byte{}, v...)
	}
	return &c
}

// wireVerify: ToMembershipResult -> alterations -> ToBalloonProof -> DigestVerify. 0 accept, 1 reject, 2 panic.
func wireVerify(p *balloon.MembershipProof, alts []malt, dv, histDigest, hyperDigest []byte) (int, *protocol.MembershipResult) {
	mr := cloneResult(protocol.ToMembershipResult(nil, p))
	for _, a := range alts {
		applyMalt(mr, a)
	}
	var ok bool
	panicked, _ := cq.Catch(func() {
		bp := protocol.ToBalloonProof(mr, hashing.NewSha256Hasher)
		ok = bp.DigestVerify(dv, &balloon.Snapshot{HistoryDigest: histDigest, HyperDigest: hyperDigest})
	})
	if panicked {
		return 2, mr
	}
	if ok {
		return 0, mr
	}
	return 1, mr
}

// sharePrefix returns a digest sharing exactly p leading bits with d.
// independent reference of the history tree: hash of node (i,h) in the tree of version v over evs
func refNode(evs [][]byte, v, i uint64, h uint16) []byte {
	hs := hashing.NewSha256Hasher()
	pos := make([]byte, 10)
	binary.BigEndian.PutUint64(pos, i)
	binary.BigEndian.PutUint16(pos[8:], h)
	if h == 0 {
		return hs.Salted(pos, evs[i])
	}
	ri := i + 1<<(h-1)
	l := refNode(evs, v, i, h-1)
	if v < ri {
		return hs.Salted(pos, l)
	}
	return hs.Salted(pos, l, refNode(evs, v, ri, h-1))
}

// the entries pruneToVerify(index, version) reads when index > version, as a forger who knows the log computes them
func forgedHistory(evs [][]byte, index, version uint64) []malt {
	var out []malt
	i, h := uint64(0), uint16(bits.Len64(version))
	for h > 0 {
		ri := i + 1<<(h-1)
		if index < ri {
			if version >= ri {
				out = append(out, malt{kind: "histadd", k: ri, h: h - 1, d: refNode(evs, version, ri, h-1)})
			}
		} else {
			out = append(out, malt{kind: "histadd", k: i, h: h - 1, d: refNode(evs, version, i, h-1)})
			i = ri
		}
		h--
	}
	return out
}

func sharePrefix(rng *cq.Rng, d []byte, p int) []byte {
	x := rng.Bytes(len(d))
	for i := 0; i < p && i < len(d)*8; i++ {
		mask := byte(1 << uint(7-i%8))
		x[i/8] = (x[i/8] &^ mask) | (d[i/8] & mask)
	}
	if p < len(d)*8 {
		mask := byte(1 << uint(7-p%8))
		x[p/8] = (x[p/8] &^ mask) | (^d[p/8] & mask)
	}
	return x
}

var prefixLens = []int{0, 1, 7, 8, 16, 23, 24, 25, 27, 28, 29, 31, 32, 33, 60, 127, 128, 200, 254, 255}

func genEvent(rng *cq.Rng, r *bRun, out *cq.Out) []byte {
	if len(r.events) > 0 {
		switch rng.Intn(12) {
		case 0, 1, 2, 3:
			p := prefixLens[rng.Intn(len(prefixLens))]
			out.Count(fmt.Sprintf("gen_shared_prefix_ge24=%v", p >= 24), 1)
			return sharePrefix(rng, r.events[rng.Intn(len(r.events))], p)
		case 4:
			out.Count("gen_duplicate", 1)
			return append([]byte{}, r.events[rng.Intn(len(r.events))]...)
		}
	}
	out.Count("gen_random", 1)
	return rng.Bytes(32)
}

func balloonCmd(out *cq.Out, seed uint64, tier string) {
	rng := cq.NewRng(seed)
	sizes := []int{1, 2, 3, 6, 12, 24, 40}
	if tier == "thorough" {
		sizes = append(sizes, 33, 64, 65, 100, 150)
	}
	var cases []string
	for ci, n := range sizes {
		r := newBRun()
		var steps []string
		var plan []string
		var kept []keptProof
		nq, nv := 0, 0
		for len(r.events) < n {
			// ---- one call
			k := 1
			single := true
			if rng.Intn(3) == 0 {
				k = 1 + rng.Intn(7)
				single = false
			} else if rng.Intn(2) == 0 {
				single = false
			}
			var evs [][]byte
			for i := 0; i < k; i++ {
				if i > 0 && rng.Intn(10) == 0 {
					evs = append(evs, append([]byte{}, evs[rng.Intn(len(evs))]...)) // duplicate inside the bulk
					out.Count("gen_duplicate_in_bulk", 1)
				} else {
					evs = append(evs, genEvent(rng, r, out))
				}
			}
			snaps := r.add(evs, single)
			if addFailed(out, r, map[string]interface{}{"case": ci, "seed": seed, "plan": strings.Join(plan, ","), "call_size": len(evs), "single": single}) {
				break
			}
			if single {
				plan = append(plan, "a")
			} else {
				plan = append(plan, fmt.Sprintf("b%d", k))
			}
			var evl []string
			for _, e := range evs {
				evl = append(evl, cq.Bytes(e))
			}
			steps = append(steps, fmt.Sprintf("SAdd %s %s", cq.List(evl), cq.Bytes(snapFP(snaps))))
			for i, s := range snaps {
				if s.Version != uint64(len(r.events)-len(snaps)+i) || !bytes.Equal(s.EventDigest, evs[i]) {
					out.Violate("C05:balloon-version", fmt.Sprintf("snapshot %d of a call carries version %d / wrong event digest (expected version %d)", i, s.Version, len(r.events)-len(snaps)+i),
						map[string]interface{}{"case": ci, "seed": seed})
				}
			}
			cur := uint64(len(r.events) - 1)
			// ---- C01: queries for added events at this state
			nqueries := 2
			if len(r.events) >= n {
				nqueries = len(r.events) + 4 // final state: every event at least once
			}
			for t := 0; t < nqueries; t++ {
				var ei int
				if len(r.events) >= n && t < len(r.events) {
					ei = t
				} else {
					ei = rng.Intn(len(r.events))
				}
				d := r.events[ei]
				rep := r.last[string(d)]
				var q *uint64
				mode := rng.Intn(10)
				switch {
				case mode == 0:
					q = nil
				case mode == 1:
					x := cur + 1 + uint64(rng.Intn(3))
					q = &x
				case mode == 2 && rep > 0:
					x := uint64(rng.Intn(int(rep)))
					q = &x
				case mode == 3:
					x := rep
					q = &x
				default:
					x := rep + uint64(rng.Intn(int(cur-rep)+1))
					q = &x
				}
				o := r.query(d, q)
				nq++
				steps = append(steps, fmt.Sprintf("SQuery %s %s %s", cq.Bytes(d), optN(q), o.coq()))
				qv := cur
				if q != nil {
					qv = *q
				}
				out.Case(fmt.Sprintf("q:%d:%d:%d:%d", ci, len(r.events), ei, qv), o.class == 0 && o.exists && len(o.histFP) > 0)
				if qv >= rep && qv <= cur {
					// the property's range: must exist, name a true version, and verify
					okv := -1
					if o.class == 0 && o.exists {
						okv, _ = wireVerify(o.proof, nil, d, r.snaps[qv].HistoryDigest, r.snaps[cur].HyperDigest)
					}
					steps = append(steps, fmt.Sprintf("SVerify %s %s [] %s %s %s %s", cq.Bytes(d), optN(q), cq.Bytes(d), cq.N(qv), cq.N(cur), cq.N(uint64(map[int]int{-1: 1, 0: 0, 1: 1, 2: 1}[okv]))))
					if okv == 0 && len(kept) < 12 && rng.Intn(3) == 0 {
						kept = append(kept, keptProof{o.proof, append([]byte{}, d...), r.snaps[qv].HistoryDigest, r.snaps[cur].HyperDigest, ei, qv, len(r.events)})
					}
					if o.class != 0 || !o.exists || o.actual >= uint64(len(r.events)) || !bytes.Equal(r.events[o.actual], d) || o.actual > qv || okv != 0 {
						out.Violate("C01:membership", fmt.Sprintf("event (version %d, reported %d) queried at version %d of a %d-event log: class=%d exists=%v actual=%d verdict=%d", ei, rep, qv, len(r.events), o.class, o.exists, o.actual, okv),
							map[string]interface{}{"case": ci, "seed": seed, "plan": strings.Join(plan, ","), "event_index": ei, "query": qv, "events": len(r.events)})
					}
				}
			}
			// ---- never-added digests (absence answers), incl. digests landing on another key's shortcut leaf
			if rng.Intn(2) == 0 {
				p := prefixLens[rng.Intn(len(prefixLens))]
				d := sharePrefix(rng, r.events[rng.Intn(len(r.events))], p)
				if _, added := r.last[string(d)]; !added {
					x := uint64(rng.Intn(len(r.events)))
					o := r.query(d, &x)
					nq++
					steps = append(steps, fmt.Sprintf("SQuery %s %s %s", cq.Bytes(d), optN(&x), o.coq()))
					if o.class == 0 && o.exists {
						out.Violate("C02:server-claims-absent-digest", fmt.Sprintf("server answered exists for a digest never added (shares %d bits with an added one)", p),
							map[string]interface{}{"case": ci, "seed": seed, "plan": strings.Join(plan, ",")})
					}
				}
			}
			// ---- C02: adversarial answers derived from genuine ones
			if rng.Intn(3) == 0 || len(r.events) >= n {
				ei := rng.Intn(len(r.events))
				d := r.events[ei]
				rep := r.last[string(d)]
				qv := rep + uint64(rng.Intn(int(cur-rep)+1))
				o := r.query(d, &qv)
				if o.class == 0 && o.exists {
					mr0 := protocol.ToMembershipResult(nil, o.proof)
					nh, ny := len(mr0.History), len(mr0.Hyper)
					// the event-level entry point (MembershipProof.Verify hashes the event itself): the genuine answer for d,
					// replayed for an event that was never added, must be rejected
					{
						raw := rng.Bytes(12)
						accepted := false
						cq.Catch(func() {
							bp := protocol.ToBalloonProof(cloneResult(mr0), hashing.NewSha256Hasher)
							accepted = bp.Verify(raw, &balloon.Snapshot{HistoryDigest: r.snaps[qv].HistoryDigest, HyperDigest: r.snaps[cur].HyperDigest, Version: qv})
						})
						if accepted {
							out.Violate("C02:false-claim:event-level-verify", fmt.Sprintf("MembershipProof.Verify accepted the answer for digest %x.. as a membership proof of a never-added event %x", d[:4], raw),
								map[string]interface{}{"case": ci, "seed": seed, "plan": strings.Join(plan, ","), "event": hex.EncodeToString(raw), "answer_for": hex.EncodeToString(d)})
						}
					}
					other := r.events[rng.Intn(len(r.events))]
					near := sharePrefix(rng, d, []int{24, 28, 32, 64, 200, 255}[rng.Intn(6)])
					var variants [][]malt
					variants = append(variants,
						[]malt{{kind: "exists", b: false}},
						[]malt{{kind: "actual", k: qv + 1}},
						[]malt{{kind: "actual", k: qv + 1}, {kind: "histclear"}},
						[]malt{{kind: "actual", k: uint64(rng.Intn(len(r.events)))}},
						[]malt{{kind: "query", k: uint64(rng.Intn(len(r.events)))}},
						[]malt{{kind: "query", k: pickVersion(rng, uint64(len(r.events)))}},
						[]malt{{kind: "actual", k: pickVersion(rng, uint64(len(r.events)))}},
						[]malt{{kind: "current", k: pickVersion(rng, uint64(len(r.events)))}},
						[]malt{{kind: "key", d: near}},
						[]malt{{kind: "key", d: other}},
						[]malt{{kind: "histclear"}},
						[]malt{{kind: "hyperclear"}},
						[]malt{{kind: "exists", b: false}, {kind: "histclear"}},
					)
					// an injected entry for a node ON the path from the leaf to the root (a verifier must recompute those,
					// never read them): the root itself with the authentic digest of the queried version, and an inner one
					depth := uint16(bits.Len64(qv))
					variants = append(variants,
						[]malt{{kind: "histadd", k: 0, h: depth, d: r.snaps[qv].HistoryDigest}},
						[]malt{{kind: "histadd", k: 0, h: depth, d: r.snaps[qv].HistoryDigest}, {kind: "key", d: near}},
						[]malt{{kind: "histadd", k: 0, h: depth, d: r.snaps[qv].HistoryDigest}, {kind: "key", d: other}},
					)
					if depth > 1 {
						hh := uint16(1 + rng.Intn(int(depth)-1))
						variants = append(variants, []malt{{kind: "histadd", k: (rep >> hh) << hh, h: hh, d: rng.Bytes(32)}})
					}
					if nh > 0 {
						variants = append(variants, []malt{{kind: "histentry", k: uint64(rng.Intn(nh))}}, []malt{{kind: "histdrop", k: uint64(rng.Intn(nh))}},
							[]malt{{kind: "histset", k: uint64(rng.Intn(nh)), d: append(append([]byte{}, r.snaps[rng.Intn(len(r.snaps))].HistoryDigest...), rng.Bytes(32)...)}})
					}
					if ny > 0 {
						variants = append(variants, []malt{{kind: "hyperentry", k: uint64(rng.Intn(ny))}}, []malt{{kind: "hyperdrop", k: uint64(rng.Intn(ny))}},
							[]malt{{kind: "hyperset", k: uint64(rng.Intn(ny)), d: rng.Bytes(32)}})
					}
					try := func(alts []malt, dv []byte, hx, yx uint64) {
						v, mr := wireVerify(o.proof, alts, dv, r.snaps[hx].HistoryDigest, r.snaps[yx].HyperDigest)
						nv++
						out.Count(fmt.Sprintf("adversarial_%s_verdict%d", alts[0].kind, v), 1)
						var al []string
						for _, a := range alts {
							al = append(al, a.coq())
						}
						obs := v
						if obs == 2 {
							obs = 1
						}
						steps = append(steps, fmt.Sprintf("SVerify %s %s %s %s %s %s %s", cq.Bytes(d), optN(&qv), cq.List(al), cq.Bytes(dv), cq.N(hx), cq.N(yx), cq.N(uint64(obs))))
						if v == 0 {
							truth := mr.Exists && mr.ActualVersion <= mr.QueryVersion && mr.ActualVersion < uint64(len(r.events)) && bytes.Equal(r.events[mr.ActualVersion], dv)
							if !truth {
								out.Violate("C02:false-claim:"+alts[0].kind, fmt.Sprintf("verifier accepted a false membership claim: exists=%v actual=%d query=%d for digest %x.. (alterations %s of a genuine answer)", mr.Exists, mr.ActualVersion, mr.QueryVersion, dv[:4], strings.Join(al, ",")),
									map[string]interface{}{"case": ci, "seed": seed, "plan": strings.Join(plan, ","), "alterations": al, "digest": hex.EncodeToString(dv), "hist_snapshot": hx, "hyper_snapshot": yx})
							}
						}
					}
					for _, alts := range variants {
						// digest verified: the genuine one, or a never-added neighbour, or another event
						for _, dv := range [][]byte{d, near, other} {
							hx := qv
							if rng.Intn(4) == 0 {
								hx = uint64(rng.Intn(len(r.events)))
							}
							yx := cur
							if rng.Intn(4) == 0 {
								yx = uint64(rng.Intn(len(r.events)))
							}
							try(alts, dv, hx, yx)
						}
					}
					// a forger who knows the whole log: the claim "exists, inserted at version rep" for a NEVER-ADDED digest that
					// shares all but its last bit with the event really inserted there, on a query at an EARLIER version q2 whose
					// tree has room for index rep. pruneToVerify(rep, q2) turns right at a partial node and discards the branch
					// holding the leaf, so the recomputed root depends on audit-path entries only - all of which the forger can
					// compute. Only the version guard (actual <= query) stands between this answer and acceptance.
					if lo := uint64(1) << uint(bits.Len64(rep)-1); rep >= 1 && rep > lo {
						q2 := lo + uint64(rng.Intn(int(rep-lo)))
						forged := []malt{{kind: "query", k: q2}, {kind: "histclear"}}
						forged = append(forged, forgedHistory(r.events, rep, q2)...)
						fake := sharePrefix(rng, d, 255)
						forged = append(forged, malt{kind: "key", d: fake})
						try(forged, fake, q2, cur)
						try(forged[:len(forged)-1], d, q2, cur)
						out.Count("forged_later_version_answers", 2)
					}
				}
			}
			// ---- consistency queries incl. the range check
			if rng.Intn(3) == 0 {
				s := uint64(rng.Intn(len(r.events) + 2))
				e := uint64(rng.Intn(len(r.events) + 2))
				if rng.Intn(4) == 0 {
					e = uint64(len(r.events) - 1) // the newest version
					s = uint64(rng.Intn(len(r.events)))
				}
				var ip *balloon.IncrementalProof
				var err error
				cls, verdict := 0, 1
				var fp []byte
				panicked, _ := cq.Catch(func() { ip, err = r.b.QueryConsistency(s, e) })
				switch {
				case panicked:
					cls = 2
				case err != nil:
					cls = 1
				default:
					fp = histFP(ip.AuditPath.Serialize())
					var ok bool
					p2, _ := cq.Catch(func() { ok = ip.Verify(r.snaps[s], r.snaps[e]) })
					if !p2 && ok {
						verdict = 0
					}
				}
				want := 1
				if s <= e && e < uint64(len(r.events)) {
					want = 0
				}
				if cls != want || (cls == 0 && verdict != 0) {
					out.Violate("C03:range", fmt.Sprintf("QueryConsistency(%d,%d) on a %d-event log: class %d (expected %d) verdict %d", s, e, len(r.events), cls, want, verdict),
						map[string]interface{}{"case": ci, "seed": seed, "s": s, "e": e})
				}
				steps = append(steps, fmt.Sprintf("SCons %s %s %s %s %s", cq.N(s), cq.N(e), cq.N(uint64(cls)), cq.Bytes(fp), cq.N(uint64(verdict))))
			}
		}
		// ---- an answer that verified when it was given is a value: later insertions do not change it (a client may
		// verify or forward it later)
		for _, k := range kept {
			if okv, _ := wireVerify(k.proof, nil, k.d, k.hist, k.hyper); okv != 0 {
				out.Violate("C01:answer-changed-by-later-insertions", fmt.Sprintf("the answer for event %d at version %d, which verified when it was given (log of %d events), no longer verifies against the same snapshots after the log grew to %d events", k.ei, k.qv, k.n, len(r.events)),
					map[string]interface{}{"case": ci, "seed": seed, "plan": strings.Join(plan, ","), "event_index": k.ei, "query": k.qv})
				break
			}
		}
		// ---- C01 under concurrent readers (queries take the balloon's read lock and run in parallel): at the final
		// state several goroutines query (event, version) pairs at once; every answer must verify
		if len(r.events) >= 6 && r.addPanic == "" {
			cur := uint64(len(r.events) - 1)
			var wg sync.WaitGroup
			var mu sync.Mutex
			first := ""
			nconc := 0
			seeds := []uint64{rng.U64(), rng.U64(), rng.U64(), rng.U64(), rng.U64(), rng.U64()}
			for g := 0; g < len(seeds); g++ {
				wg.Add(1)
				go func(g int) {
					defer wg.Done()
					lr := cq.NewRng(seeds[g])
					for t := 0; t < 60; t++ {
						ei := lr.Intn(len(r.events))
						d := r.events[ei]
						rep := r.last[string(d)]
						qv := rep + uint64(lr.Intn(int(cur-rep)+1))
						okv := -1
						var o qObs
						p, _ := cq.Catch(func() {
							o = r.query(d, &qv)
							if o.class == 0 && o.exists {
								okv, _ = wireVerify(o.proof, nil, d, r.snaps[qv].HistoryDigest, r.snaps[cur].HyperDigest)
							}
						})
						mu.Lock()
						nconc++
						if (p || okv != 0) && first == "" {
							first = fmt.Sprintf("event %d (reported version %d) queried at version %d of a %d-event log while other queries run: panic=%v class=%d exists=%v verdict=%d", ei, rep, qv, len(r.events), p, o.class, o.exists, okv)
						}
						mu.Unlock()
					}
				}(g)
			}
			wg.Wait()
			if first != "" {
				out.Violate("C01:membership:concurrent-queries", first, map[string]interface{}{"case": ci, "seed": seed, "plan": strings.Join(plan, ","), "events": len(r.events)})
			}
			out.Count("concurrent_queries", nconc)
		}
		out.Count("calls", len(plan))
		out.Count("events", len(r.events))
		out.Count("queries", nq)
		out.Count("adversarial_answers", nv)
		out.Sample(map[string]interface{}{"case": ci, "events": len(r.events), "plan": strings.Join(plan, ","), "queries": nq, "adversarial_answers": nv})
		cases = append(cases, cq.List(steps))
		r.close()
	}
	f, _ := os.Create(out.Dir + "/cases.v")
	fmt.Fprintf(f, "From Coq Require Import List NArith Uint63.\nFrom QV Require Import Run.HistRun Run.BalloonRun.\nImport ListNotations.\nOpen Scope uint63_scope.\n")
	fmt.Fprintf(f, "Definition cases : list (list step) := %s.\n", cq.List(cases))
	fmt.Fprintf(f, "Definition R := Eval vm_compute in run_balloon_cases cases.\nPrint R.\n")
	f.Close()
}
