package main

import (
	"bytes"
	"fmt"
	"os"
	"sort"
	"strings"

	"github.com/bbva/qed/balloon/history"
	"github.com/bbva/qed/crypto/hashing"
	"github.com/bbva/qed/storage/bplus"
	"qedverif/cq"
)

// ---- history-tree level correspondence (C03; history halves of C01, C02, C04)

type histRun struct {
	events [][]byte
	roots  [][]byte
	tree   *history.HistoryTree
}

// buildHistory inserts the events with a random split into Add / AddBulk calls, persisting the
// mutations after each call (what Balloon + FSM do).
func buildHistory(rng *cq.Rng, events [][]byte, cacheSize uint16) (*histRun, string) {
	store := bplus.NewBPlusTreeStore()
	tree := history.NewHistoryTree(hashing.NewSha256Hasher, store, cacheSize)
	h := &histRun{events: events, tree: tree}
	var split []string
	v := uint64(0)
	for v < uint64(len(events)) {
		k := 1
		if rng.Intn(3) == 0 {
			k = 1 + rng.Intn(9)
		}
		if v+uint64(k) > uint64(len(events)) {
			k = len(events) - int(v)
		}
		if cacheSize < 64 {
			// a bulk needs the nodes it froze earlier in the same call to be still in the write cache (they are persisted
			// only after the call): with a write cache far below the production size (300) only single insertions are legal
			k = 1
		}
		if rng.Intn(6) == 0 {
			// an insertion that is computed but never persisted (its apply was abandoned): the same versions are then
			// given to the events of the committed log; nothing of the lost call may survive in the tree's caches
			var lost []hashing.Digest
			for j := 0; j < k; j++ {
				lost = append(lost, hashing.NewSha256Hasher().Do([]byte(fmt.Sprintf("lost-%d-%d", v, j))))
			}
			if k == 1 {
				tree.Add(lost[0], v)
			} else {
				tree.AddBulk(lost, v)
			}
			split = append(split, fmt.Sprintf("lost%d", k))
		}
		if k == 1 && (rng.Intn(2) == 0 || cacheSize < 64) {
			d, muts, err := tree.Add(events[v], v)
			if err != nil {
				panic(err)
			}
			store.Mutate(muts, nil)
			h.roots = append(h.roots, d)
			split = append(split, "a")
		} else {
			var ds []hashing.Digest
			for _, e := range events[v : v+uint64(k)] {
				ds = append(ds, e)
			}
			rs, muts, err := tree.AddBulk(ds, v)
			if err != nil {
				panic(err)
			}
			store.Mutate(muts, nil)
			for _, r := range rs {
				h.roots = append(h.roots, r)
			}
			split = append(split, fmt.Sprintf("b%d", k))
		}
		v += uint64(k)
	}
	return h, strings.Join(split, ",")
}

type pathEntry struct {
	key [10]byte
	val []byte
}

func canonPath(p history.AuditPath) []pathEntry {
	var es []pathEntry
	for k, v := range p {
		es = append(es, pathEntry{k, append([]byte{}, v...)})
	}
	sort.Slice(es, func(i, j int) bool { return bytes.Compare(es[i].key[:], es[j].key[:]) < 0 })
	return es
}

func pathFP(p history.AuditPath) []byte {
	var buf []byte
	buf = append(buf, 0)
	for _, e := range canonPath(p) {
		buf = append(buf, e.key[:]...)
		buf = append(buf, e.val...)
	}
	return cq.Sha(buf)
}

func pathFromEntries(es []pathEntry) history.AuditPath {
	p := make(history.AuditPath)
	for _, e := range es {
		p[e.key] = e.val
	}
	return p
}

type alt struct {
	kind string // none entry drop first second da db
	k    uint64
	d    []byte
}

func (a alt) coq() string {
	switch a.kind {
	case "entry":
		return "AltEntry " + cq.N(a.k)
	case "drop":
		return "AltDrop " + cq.N(a.k)
	case "first":
		return "AltFirst " + cq.N(a.k)
	case "second":
		return "AltSecond " + cq.N(a.k)
	case "da":
		return "AltDigestA " + cq.Bytes(a.d)
	case "db":
		return "AltDigestB " + cq.Bytes(a.d)
	case "dropdb":
		return "AltDropDb " + cq.N(a.k) + " " + cq.Bytes(a.d)
	case "shift":
		return "AltShift " + cq.N(a.k)
	case "pad":
		return "AltPad " + cq.N(a.k)
	}
	return "AltNone"
}

func applyAltPath(a alt, p history.AuditPath) history.AuditPath {
	es := canonPath(p)
	switch a.kind {
	case "entry":
		if int(a.k) < len(es) {
			v := append([]byte{}, es[a.k].val...)
			if len(v) == 0 {
				v = []byte{1}
			} else {
				v[0] ^= 1
			}
			es[a.k].val = v
		}
	case "drop", "dropdb":
		if int(a.k) < len(es) {
			es = append(es[:a.k:a.k], es[a.k+1:]...)
		}
	case "shift":
		// the last byte of entry k becomes the first byte of entry k+1: when the two are hashed side by side
		// (sibling leaves both taken from the path) the hashed bytes do not change
		if int(a.k)+1 < len(es) && len(es[a.k].val) > 0 {
			x, y := es[a.k].val, es[a.k+1].val
			es[a.k].val = append([]byte{}, x[:len(x)-1]...)
			es[a.k+1].val = append([]byte{x[len(x)-1]}, y...)
		}
	case "pad":
		if int(a.k) < len(es) {
			es[a.k].val = append(append([]byte{}, es[a.k].val...), 0)
		}
	}
	return pathFromEntries(es)
}

func verdictIncr(p history.AuditPath, s, e uint64, ds, de []byte) uint64 {
	var ok bool
	panicked, _ := cq.Catch(func() {
		ok = history.NewIncrementalProof(s, e, p, hashing.NewSha256Hasher()).Verify(ds, de)
	})
	if panicked {
		return 2
	}
	if ok {
		return 0
	}
	return 1
}

func verdictMemb(p history.AuditPath, i, v uint64, e, root []byte) uint64 {
	var ok bool
	panicked, _ := cq.Catch(func() {
		ok = history.NewMembershipProof(i, v, p, hashing.NewSha256Hasher()).Verify(e, root)
	})
	if panicked {
		return 2
	}
	if ok {
		return 0
	}
	return 1
}

func pickVersion(rng *cq.Rng, n uint64) uint64 {
	switch rng.Intn(8) {
	case 0:
		return 0
	case 1:
		return ^uint64(0)
	case 2:
		return 1 << 63
	case 3:
		return (1 << 63) - 1
	case 4:
		return n
	case 5:
		return n + uint64(rng.Intn(5))
	default:
		return uint64(rng.Intn(int(n)))
	}
}

func histCmd(out *cq.Out, seed uint64, tier string) {
	rng := cq.NewRng(seed)
	sizes := []int{1, 2, 3, 5, 8, 9, 16, 17, 31, 33}
	extra := 2
	if tier == "thorough" {
		sizes = append(sizes, 32, 63, 64, 65, 100, 127, 128, 129, 200)
		extra = 6
	}
	for i := 0; i < extra; i++ {
		sizes = append(sizes, 1+rng.Intn(70))
	}
	var cases []string
	for ci, n := range sizes {
		events := make([][]byte, n)
		for i := range events {
			events[i] = rng.Bytes(32)
		}
		cacheSize := uint16(300)
		if rng.Intn(2) == 0 {
			cacheSize = uint16(1 + rng.Intn(20))
		}
		h, split := buildHistory(rng, events, cacheSize)
		out.Count("histories", 1)
		out.Count("events", n)
		// a forked log: same first p events, different event at p
		p := rng.Intn(n)
		fevents := make([][]byte, n)
		copy(fevents, events)
		fevents[p] = rng.Bytes(32)
		fork, _ := buildHistory(rng, fevents, 300)

		var rootsCat []byte
		for _, r := range h.roots {
			rootsCat = append(rootsCat, r...)
		}
		var incrFP, membFP []string
		var incrAlts, membAlts []string
		N := uint64(n)
		for i := uint64(0); i < N; i++ {
			var rowI, rowM []byte
			for j := i; j < N; j++ {
				// ---- incremental (i, j)
				ip, err := h.tree.ProveConsistency(i, j)
				if err != nil {
					panic(err)
				}
				rowI = append(rowI, pathFP(ip.AuditPath)...)
				out.Case(fmt.Sprintf("incr:%d:%d:%d", n, i, j), len(ip.AuditPath) > 1)
				if v := verdictIncr(ip.AuditPath, i, j, h.roots[i], h.roots[j]); v != 0 {
					out.Violate("C03:complete", fmt.Sprintf("incremental proof (%d,%d) of a %d-event log rejected by the verifier (verdict %d)", i, j, n, v),
						map[string]interface{}{"n": n, "i": i, "j": j, "split": split, "seed": seed, "case": ci})
				}
				// ---- membership (i, q=j)
				mp, err := h.tree.ProveMembership(i, j)
				if err != nil {
					panic(err)
				}
				rowM = append(rowM, pathFP(mp.AuditPath)...)
				out.Case(fmt.Sprintf("memb:%d:%d:%d", n, i, j), len(mp.AuditPath) > 0)
				if v := verdictMemb(mp.AuditPath, i, j, events[i], h.roots[j]); v != 0 {
					out.Violate("C01:history-complete", fmt.Sprintf("history membership proof (index %d, version %d) of a %d-event log rejected (verdict %d)", i, j, n, v),
						map[string]interface{}{"n": n, "i": i, "q": j, "split": split, "seed": seed, "case": ci})
				}
				// ---- alterations on a sample of pairs
				if rng.Intn(1+n*n/40) == 0 {
					var alts []alt
					np := len(ip.AuditPath)
					for k := 0; k < np; k++ {
						alts = append(alts, alt{kind: "entry", k: uint64(k)})
					}
					if np > 0 {
						alts = append(alts, alt{kind: "drop", k: uint64(rng.Intn(np))})
						alts = append(alts, alt{kind: "pad", k: uint64(rng.Intn(np))})
					}
					for k := 0; k+1 < np; k++ {
						alts = append(alts, alt{kind: "shift", k: uint64(k)})
					}
					for _, d := range []int64{-1, 1} {
						if x := int64(i) + d; x >= 0 {
							alts = append(alts, alt{kind: "first", k: uint64(x)})
						}
						if x := int64(j) + d; x >= 0 {
							alts = append(alts, alt{kind: "second", k: uint64(x)})
						}
					}
					alts = append(alts, alt{kind: "first", k: pickVersion(rng, N)}, alt{kind: "second", k: pickVersion(rng, N)})
					for t := 0; t < 2; t++ {
						k := uint64(rng.Intn(n))
						alts = append(alts, alt{kind: "da", d: h.roots[k]}, alt{kind: "db", d: h.roots[k]})
					}
					alts = append(alts, alt{kind: "da", d: fork.roots[i]}, alt{kind: "db", d: fork.roots[j]})
					// two alterations at once: an entry withheld AND the end digest replaced by the digest of a neighbouring
					// version (a server hiding the newest events behind an older snapshot the auditor trusts)
					for k := 0; k < np; k++ {
						if j >= 1 {
							alts = append(alts, alt{kind: "dropdb", k: uint64(k), d: h.roots[j-1]})
						}
						if int(j)+1 < n && k%3 == 0 {
							alts = append(alts, alt{kind: "dropdb", k: uint64(k), d: h.roots[j+1]})
						}
					}
					for _, a := range alts {
						s, e, ds, de := i, j, h.roots[i], h.roots[j]
						switch a.kind {
						case "dropdb":
							de = a.d
						case "first":
							s = a.k
						case "second":
							e = a.k
						case "da":
							ds = a.d
						case "db":
							de = a.d
						}
						effective := !(a.kind == "first" && a.k == i) && !(a.kind == "second" && a.k == j) &&
							!(a.kind == "da" && bytes.Equal(a.d, h.roots[i])) && !(a.kind == "db" && bytes.Equal(a.d, h.roots[j])) &&
							!(a.kind == "dropdb" && bytes.Equal(a.d, h.roots[j]))
						v := verdictIncr(applyAltPath(a, ip.AuditPath), s, e, ds, de)
						out.Count("incr_alterations", 1)
						out.Count(fmt.Sprintf("incr_alt_%s_verdict%d", a.kind, v), 1)
						if effective && v == 0 {
							out.Violate("C03:sound:"+a.kind, fmt.Sprintf("altered incremental proof accepted: log n=%d pair (%d,%d) alteration %s", n, i, j, a.coq()),
								map[string]interface{}{"n": n, "i": i, "j": j, "alt": a.coq(), "seed": seed, "case": ci})
						}
						incrAlts = append(incrAlts, fmt.Sprintf("(%s,%s,%s,%s)", cq.N(i), cq.N(j), a.coq(), cq.N(v)))
					}
					// membership alterations
					alts = nil
					np = len(mp.AuditPath)
					for k := 0; k < np; k++ {
						alts = append(alts, alt{kind: "entry", k: uint64(k)})
					}
					if np > 0 {
						alts = append(alts, alt{kind: "drop", k: uint64(rng.Intn(np))})
					}
					alts = append(alts, alt{kind: "first", k: pickVersion(rng, N)}, alt{kind: "second", k: pickVersion(rng, N)},
						alt{kind: "first", k: j + 1}, alt{kind: "da", d: events[rng.Intn(n)]}, alt{kind: "da", d: rng.Bytes(32)},
						alt{kind: "db", d: h.roots[rng.Intn(n)]}, alt{kind: "db", d: fork.roots[j]})
					for k := 0; k < np && j >= 1; k++ {
						alts = append(alts, alt{kind: "dropdb", k: uint64(k), d: h.roots[j-1]})
					}
					for _, a := range alts {
						idx, ver, e, root := i, j, events[i], h.roots[j]
						switch a.kind {
						case "dropdb":
							root = a.d
						case "first":
							idx = a.k
						case "second":
							ver = a.k
						case "da":
							e = a.d
						case "db":
							root = a.d
						}
						v := verdictMemb(applyAltPath(a, mp.AuditPath), idx, ver, e, root)
						out.Count("memb_alterations", 1)
						out.Count(fmt.Sprintf("memb_alt_%s_verdict%d", a.kind, v), 1)
						// ground truth: accepted with idx<=ver against the authentic root of version j  =>  idx<=j and event idx is e
						// (the claimed tree version itself is not bound: (1,2) and (1,3) have the same path shape)
						if v == 0 && idx <= ver && a.kind != "db" && a.kind != "dropdb" {
							if !(idx <= j && idx < N && bytes.Equal(events[idx], e)) {
								out.Violate("C02:history-sound:"+a.kind, fmt.Sprintf("history membership verification accepted a false claim: n=%d genuine (%d,%d) alteration %s", n, i, j, a.coq()),
									map[string]interface{}{"n": n, "i": i, "q": j, "alt": a.coq(), "seed": seed, "case": ci})
							}
						}
						if v == 0 && (a.kind == "db" || a.kind == "dropdb") && !bytes.Equal(a.d, h.roots[j]) {
							out.Violate("C02:history-sound:db", fmt.Sprintf("history membership verification accepted against a different root: n=%d (%d,%d)", n, i, j),
								map[string]interface{}{"n": n, "i": i, "q": j, "alt": a.coq(), "seed": seed, "case": ci})
						}
						membAlts = append(membAlts, fmt.Sprintf("(%s,%s,%s,%s)", cq.N(i), cq.N(j), a.coq(), cq.N(v)))
					}
				}
			}
			incrFP = append(incrFP, cq.Bytes(cq.Sha(rowI)))
			membFP = append(membFP, cq.Bytes(cq.Sha(rowM)))
		}
		var evl []string
		for _, e := range events {
			evl = append(evl, cq.Bytes(e))
		}
		cases = append(cases, fmt.Sprintf("{| hc_events := %s;\n hc_roots_fp := %s;\n hc_incr_fp := %s;\n hc_memb_fp := %s;\n hc_incr_alts := %s;\n hc_memb_alts := %s |}",
			cq.List(evl), cq.Bytes(cq.Sha(rootsCat)), cq.List(incrFP), cq.List(membFP), cq.List(incrAlts), cq.List(membAlts)))
		out.Sample(map[string]interface{}{"case": ci, "events": n, "split": split, "write_cache": cacheSize, "fork_at": p,
			"incr_alterations": len(incrAlts), "memb_alterations": len(membAlts)})
	}
	f, _ := os.Create(out.Dir + "/cases.v")
	fmt.Fprintf(f, "From Coq Require Import List NArith Uint63.\nFrom QV Require Import Run.HistRun.\nImport ListNotations.\nOpen Scope uint63_scope.\n")
	fmt.Fprintf(f, "Definition cases : list hist_case := %s.\n", cq.List(cases))
	fmt.Fprintf(f, "Definition R := Eval vm_compute in run_hist_cases cases.\nPrint R.\n")
	f.Close()
}
