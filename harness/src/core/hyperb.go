package main

import (
	"bytes"
	"encoding/hex"
	"fmt"
	"os"
	"sort"
	"strings"

	"github.com/bbva/qed/balloon/hyper"
	"github.com/bbva/qed/crypto/hashing"
	"github.com/bbva/qed/storage"
	"github.com/bbva/qed/storage/bplus"
	"qedverif/cq"
)

// ---- the hyper tree at the level of its batches: after every call the root hash, the content of HyperTable and
// HyperCacheTable and the cached batches on the paths of all keys are compared with the batch-level Coq model
// (Hyper/HyperBatch.v).

// parse a serialised batch (4-byte bitmap, then nodeSize+1 bytes per present slot) into Coq slot observations
func slotsOf(val []byte, nodeSize int) string {
	var xs []string
	j := 0
	for i := 0; i < 31; i++ {
		if val[i/8]&(1<<uint(7-i%8)) != 0 {
			s := val[4+(nodeSize+1)*j : 4+(nodeSize+1)*(j+1)]
			xs = append(xs, fmt.Sprintf("(%d%%nat, %d%%N, %s)", i, s[nodeSize], cq.Bytes(s[:nodeSize])))
			j++
		}
	}
	return cq.List(xs)
}

func dumpTable(store storage.Store, table storage.Table, nodeSize int) string {
	type kv struct{ k, v []byte }
	var all []kv
	r := store.GetAll(table)
	buf := make([]*storage.KVPair, 64)
	for {
		n, err := r.Read(buf)
		if n == 0 || err != nil {
			break
		}
		for i := 0; i < n; i++ {
			all = append(all, kv{append([]byte{}, buf[i].Key...), append([]byte{}, buf[i].Value...)})
		}
	}
	r.Close()
	sort.Slice(all, func(i, j int) bool { return bytes.Compare(all[i].k, all[j].k) < 0 })
	var xs []string
	for _, e := range all {
		xs = append(xs, fmt.Sprintf("(%s, %s)", cq.Bytes(e.k), slotsOf(e.v, nodeSize)))
	}
	return cq.List(xs)
}

// the cached batches on the paths of the given keys (cache levels: batch roots at heights 256, 252, ..., 236)
func probeCache(c *hyper.BatchCache, keys [][]byte) string {
	seen := map[string]bool{}
	type kv struct{ k, v []byte }
	var all []kv
	for _, key := range keys {
		for h := 256; h >= 236; h -= 4 {
			idx := make([]byte, 32)
			nb := 256 - h
			for i := 0; i < nb; i++ {
				if key[i/8]&(1<<uint(7-i%8)) != 0 {
					idx[i/8] |= 1 << uint(7-i%8)
				}
			}
			pos := append([]byte{byte(h >> 8), byte(h)}, idx...)
			if seen[string(pos)] {
				continue
			}
			seen[string(pos)] = true
			v, ok := c.Get(pos)
			if !ok {
				all = append(all, kv{pos, nil})
			} else {
				all = append(all, kv{pos, v})
			}
		}
	}
	sort.Slice(all, func(i, j int) bool { return bytes.Compare(all[i].k, all[j].k) < 0 })
	var xs []string
	for _, e := range all {
		if e.v == nil {
			xs = append(xs, fmt.Sprintf("(%s, [])", cq.Bytes(e.k)))
		} else {
			xs = append(xs, fmt.Sprintf("(%s, %s)", cq.Bytes(e.k), slotsOf(e.v, 32)))
		}
	}
	return cq.List(xs)
}

func hyperbCmd(out *cq.Out, seed uint64, tier string) {
	rng := cq.NewRng(seed)
	sizes := []int{3, 10, 25}
	if tier == "thorough" {
		sizes = []int{1, 3, 10, 25, 40, 60}
	}
	var cases []string
	for ci, n := range sizes {
		store := bplus.NewBPlusTreeStore()
		cache := hyper.NewBatchCache(hyper.DefaultBatchLevels)
		tree := hyper.NewHyperTree(hashing.NewSha256Hasher, store, cache)
		var keys [][]byte
		var steps []string
		var plan []string
		version := uint64(0)
		desc := map[string]interface{}{"seed": seed, "case": ci, "events": n, "plan": &plan}
		for len(keys) < n {
			out.Note(desc)
			k := 1
			single := rng.Intn(2) == 0
			if !single {
				k = 1 + rng.Intn(6)
			}
			var ds []hashing.Digest
			var kvs []string
			for j := 0; j < k; j++ {
				var d []byte
				switch r := rng.Intn(12); {
				case len(keys) > 0 && r < 5:
					d = sharePrefix(rng, keys[rng.Intn(len(keys))], prefixLens[rng.Intn(len(prefixLens))])
					out.Count("hb_shared_prefix", 1)
				case len(keys) > 0 && r == 5:
					d = append([]byte{}, keys[rng.Intn(len(keys))]...) // an existing key again: its value is overwritten
					out.Count("hb_existing_key", 1)
				case j > 0 && r == 6:
					d = append([]byte{}, ds[rng.Intn(len(ds))]...) // the same key twice in one bulk
					out.Count("hb_duplicate_in_bulk", 1)
				default:
					d = rng.Bytes(32)
				}
				ds = append(ds, d)
				kvs = append(kvs, fmt.Sprintf("(%s, %d%%N)", cq.Bytes(d), version+uint64(j)))
			}
			var root hashing.Digest
			var muts []*storage.Mutation
			var err error
			panicked, msg := cq.Catch(func() {
				if single {
					root, muts, err = tree.Add(ds[0], version)
				} else {
					root, muts, err = tree.AddBulk(ds, version)
				}
			})
			if panicked || err != nil {
				out.Violate("C04:hyper-insertion-panic", fmt.Sprintf("hyper tree insertion of %d keys failed after %d keys: %s %v", k, len(keys), msg, err), desc)
				break
			}
			store.Mutate(muts, nil)
			version += uint64(k)
			for _, d := range ds {
				keys = append(keys, []byte(d))
			}
			plan = append(plan, fmt.Sprintf("%d", k))
			steps = append(steps, fmt.Sprintf("HAdd %s %s %s %s %s", cq.List(kvs), cq.Bytes(root), probeCache(cache, keys), dumpTable(store, storage.HyperCacheTable, 32), dumpTable(store, storage.HyperTable, 32)))
			out.Case(fmt.Sprintf("hb:%d:%d", ci, len(plan)), k > 1)
			// searches: a stored key, a key sharing a long prefix with a stored one, a random key
			for q := 0; q < 3; q++ {
				var key []byte
				switch q {
				case 0:
					key = keys[rng.Intn(len(keys))]
				case 1:
					key = sharePrefix(rng, keys[rng.Intn(len(keys))], prefixLens[rng.Intn(len(prefixLens))])
				default:
					key = rng.Bytes(32)
				}
				var proof *hyper.QueryProof
				if p, msg := cq.Catch(func() { proof, err = tree.QueryMembership(key) }); p || err != nil {
					out.Violate("C01:hyper-search-panic", fmt.Sprintf("hyper tree search failed after %d keys: %s %v", len(keys), msg, err), desc)
					break
				}
				type pe struct{ k, v []byte }
				var es []pe
				for id, d := range proof.AuditPath {
					// id = "0x<index hex>|<height>"
					var idx string
					var h int
					parts := strings.SplitN(id, "|", 2)
					idx = strings.TrimPrefix(parts[0], "0x")
					fmt.Sscanf(parts[1], "%d", &h)
					ib, _ := hex.DecodeString(idx)
					if len(ib) < 32 { // %#x prints an empty slice as "" and drops nothing else; pad defensively
						ib = append(make([]byte, 32-len(ib)), ib...)
					}
					es = append(es, pe{append([]byte{byte(h >> 8), byte(h)}, ib...), d})
				}
				sort.Slice(es, func(i, j int) bool { return bytes.Compare(es[i].k, es[j].k) < 0 })
				var xs []string
				for _, e := range es {
					xs = append(xs, fmt.Sprintf("(%s, %s)", cq.Bytes(e.k), cq.Bytes(e.v)))
				}
				steps = append(steps, fmt.Sprintf("HFind %s %s %s", cq.Bytes(key), cq.Bytes(proof.Value), cq.List(xs)))
				out.Case(fmt.Sprintf("hbfind:%d:%d:%d", ci, len(plan), q), len(proof.Value) > 0)
			}
			if rng.Intn(5) == 0 {
				// a new tree object on the same store: the cache is rebuilt from the persisted tiles
				tree.Close()
				cache = hyper.NewBatchCache(hyper.DefaultBatchLevels)
				tree = hyper.NewHyperTree(hashing.NewSha256Hasher, store, cache)
				plan = append(plan, "reopen")
				steps = append(steps, fmt.Sprintf("HReopen %s %s %s", probeCache(cache, keys), dumpTable(store, storage.HyperCacheTable, 32), dumpTable(store, storage.HyperTable, 32)))
				out.Count("hb_reopen", 1)
			}
		}
		cases = append(cases, cq.List(steps))
		out.Sample(map[string]interface{}{"case": ci, "keys": len(keys), "plan": strings.Join(plan, ",")})
		tree.Close()
	}
	f, _ := os.Create(out.Dir + "/cases.v")
	fmt.Fprintf(f, "From Coq Require Import List NArith Uint63.\nFrom QV Require Import Base.ShaInst Hyper.HyperBatch Run.HyperBatchRun.\nImport ListNotations.\nOpen Scope uint63_scope.\n")
	fmt.Fprintf(f, "Definition cases : list (list hbstep) := %s.\n", cq.List(cases))
	fmt.Fprintf(f, "Definition R := Eval vm_compute in run_hb_cases cases.\nPrint R.\n")
	f.Close()
}
