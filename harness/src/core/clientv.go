package main

import (
	"bytes"
	"crypto/sha256"
	"encoding/json"
	"fmt"
	"io/ioutil"
	"net/http"
	"os"
	"runtime"
	"sort"
	"strconv"
	"sync"
	"time"

	"github.com/bbva/qed/balloon"
	"github.com/bbva/qed/client"
	"github.com/bbva/qed/crypto/hashing"
	"github.com/bbva/qed/protocol"
	"qedverif/cq"
)

// ---- C01/C02/C03 at the client's entry points: the real client.HTTPClient (JSON over HTTP, protocol.To*Proof,
// the *Verify and *AutoVerify functions) against an honest snapshot store and a QED server that is honest or
// adversarial.  Ground truth is the log the snapshots were issued by.

type rtFunc func(*http.Request) (*http.Response, error)

func (f rtFunc) RoundTrip(r *http.Request) (*http.Response, error) { return f(r) }

func reply(status int, v interface{}) (*http.Response, error) {
	body, _ := json.Marshal(v)
	return &http.Response{StatusCode: status, Body: ioutil.NopCloser(bytes.NewReader(body)), Header: make(http.Header)}, nil
}

type cvServer struct {
	mu        sync.Mutex
	log       *bRun  // the log whose snapshots are published
	fork      *bRun  // a log that shares the first forkAt events with log and differs afterwards
	forkAt    uint64 // first version at which fork differs
	mode      string
	alt       uint64 // auxiliary version chosen by the scenario
	alt2      uint64
	victim    []byte
	fetched   []uint64 // snapshot versions the client asked the store for during the current call
	lastMemb  *protocol.MembershipResult
	lastIncr  *protocol.IncrementalResponse
	answerErr bool
}

func histPos(index uint64, height uint16) []byte {
	b := make([]byte, 10)
	for i := 0; i < 8; i++ {
		b[i] = byte(index >> (8 * uint(7-i)))
	}
	b[8], b[9] = byte(height>>8), byte(height)
	return b
}

func histHash(pos []byte, children ...[]byte) []byte {
	h := sha256.New()
	for _, c := range children {
		h.Write(c)
	}
	h.Write(pos)
	return h.Sum(nil)
}

func (s *cvServer) honestMemb(b *bRun, d []byte, v *uint64) (*protocol.MembershipResult, bool) {
	o := b.query(d, v)
	if o.class != 0 {
		return nil, false
	}
	return protocol.ToMembershipResult(nil, o.proof), true
}

// the answer "exists at version v, proof built for query version v-1" for a digest that is not in the log: in the
// tree of version v-1 leaf v does not exist, its would-be ancestor is fed from the audit path alone, and that
// entry is set to left||right (64 bytes) so that the partial node equals the genuine full node of version v
func (s *cvServer) forged64(fake []byte, v uint64) (*protocol.MembershipResult, bool) {
	if v == 0 || v >= uint64(len(s.log.events)) {
		return nil, false
	}
	victim := s.log.events[v]
	genuine, ok := s.honestMemb(s.log, victim, &v)
	if !ok {
		return nil, false
	}
	q := v - 1
	height := uint16(0)
	for x := v; x > 0; x >>= 1 {
		height++
	}
	history := make(map[string]hashing.Digest)
	index := uint64(0)
	for h := height; h > 0; h-- {
		right := index + 1<<(h-1)
		if v < right {
			continue
		}
		leftKey := fmt.Sprintf("%d|%d", index, h-1)
		left, ok := genuine.History[leftKey]
		if !ok {
			return nil, false
		}
		if right > q {
			r := histHash(histPos(v, 0), victim)
			for k := uint16(1); k <= h-1; k++ {
				r = histHash(histPos(v, k), r)
			}
			history[leftKey] = append(append([]byte{}, left...), r...)
			break
		}
		history[leftKey] = left
		index = right
	}
	return &protocol.MembershipResult{Exists: true, Hyper: genuine.Hyper, History: history, CurrentVersion: genuine.CurrentVersion, QueryVersion: q, ActualVersion: v, KeyDigest: fake}, true
}

func (s *cvServer) membership(q *protocol.MembershipDigest) (*protocol.MembershipResult, bool) {
	switch s.mode {
	case "honest":
		return s.honestMemb(s.log, q.KeyDigest, q.Version)
	case "other-version": // a genuine answer, for another version than the one asked for
		return s.honestMemb(s.log, q.KeyDigest, &s.alt)
	case "query-rewritten": // the same, relabelled with the version asked for
		m, ok := s.honestMemb(s.log, q.KeyDigest, &s.alt)
		if ok && q.Version != nil {
			m.QueryVersion = *q.Version
		}
		return m, ok
	case "victim-proof", "victim-proof-own-key": // asked about a never-added digest: the answer of a stored event sharing its prefix
		m, ok := s.honestMemb(s.log, s.victim, q.Version)
		if ok && s.mode == "victim-proof" {
			m.KeyDigest = q.KeyDigest
		}
		return m, ok
	case "forged64":
		return s.forged64(q.KeyDigest, s.alt)
	case "forged64-relabelled":
		m, ok := s.forged64(q.KeyDigest, s.alt)
		if ok && q.Version != nil {
			m.QueryVersion = *q.Version
		}
		return m, ok
	case "absent-for-present": // a genuine proof of absence (of the never-added digest), presented for a stored one
		m, ok := s.honestMemb(s.log, s.victim, q.Version)
		if ok {
			m.KeyDigest = q.KeyDigest
		}
		return m, ok
	case "exists-flipped": // the genuine answer with the one boolean turned around
		m, ok := s.honestMemb(s.log, q.KeyDigest, q.Version)
		if ok {
			m.Exists = !m.Exists
		}
		return m, ok
	case "fork": // the server serves a log that diverged from the published one
		return s.honestMemb(s.fork, q.KeyDigest, q.Version)
	case "field":
		m, ok := s.honestMemb(s.log, q.KeyDigest, q.Version)
		if ok {
			switch s.alt % 7 {
			case 5: // the echoed key digest is missing or shorter than a digest
				m.KeyDigest = m.KeyDigest[:s.alt2%4]
				if s.alt2%5 == 0 {
					m.KeyDigest = nil
				}
			case 6:
				m.Key = nil
				m.KeyDigest = []byte{}
			case 0:
				m.Exists = !m.Exists
			case 1:
				m.ActualVersion = s.alt2
			case 2:
				m.CurrentVersion = s.alt2
			case 3:
				m.QueryVersion = s.alt2
			default:
				m.ActualVersion, m.QueryVersion = s.alt2, s.alt2
			}
		}
		return m, ok
	}
	return nil, false
}

func (s *cvServer) incremental(q *protocol.IncrementalRequest) (*protocol.IncrementalResponse, bool) {
	get := func(b *bRun, st, en uint64) (*protocol.IncrementalResponse, bool) {
		var ip *balloon.IncrementalProof
		var err error
		if p, _ := cq.Catch(func() { ip, err = b.b.QueryConsistency(st, en) }); p || err != nil {
			return nil, false
		}
		return protocol.ToIncrementalResponse(ip), true
	}
	switch s.mode {
	case "honest":
		return get(s.log, q.Start, q.End)
	case "other-pair":
		return get(s.log, s.alt, s.alt2)
	case "pair-rewritten":
		r, ok := get(s.log, s.alt, s.alt2)
		if ok {
			r.Start, r.End = q.Start, q.End
		}
		return r, ok
	case "fork":
		return get(s.fork, q.Start, q.End)
	case "fork-short": // the forked server answers for a pair that ends before the fork
		return get(s.fork, s.alt, s.alt2)
	}
	return nil, false
}

func (s *cvServer) transport() rtFunc {
	return func(req *http.Request) (*http.Response, error) {
		s.mu.Lock()
		defer s.mu.Unlock()
		body := []byte{}
		if req.Body != nil {
			body, _ = ioutil.ReadAll(req.Body)
		}
		switch {
		case req.URL.Host == "qed.verif" && req.URL.Path == "/proofs/digest-membership":
			var q protocol.MembershipDigest
			if err := json.Unmarshal(body, &q); err != nil {
				return reply(http.StatusBadRequest, err.Error())
			}
			m, ok := s.membership(&q)
			if !ok {
				s.answerErr = true
				return reply(http.StatusBadRequest, "no answer")
			}
			s.lastMemb = m
			return reply(http.StatusOK, m)
		case req.URL.Host == "qed.verif" && req.URL.Path == "/proofs/incremental":
			var q protocol.IncrementalRequest
			if err := json.Unmarshal(body, &q); err != nil {
				return reply(http.StatusBadRequest, err.Error())
			}
			r, ok := s.incremental(&q)
			if !ok {
				s.answerErr = true
				return reply(http.StatusBadRequest, "no answer")
			}
			s.lastIncr = r
			return reply(http.StatusOK, r)
		case req.URL.Host == "qed.verif" && (req.URL.Path == "/events/bulk" || req.URL.Path == "/events") && req.Method == "POST":
			// the snapshots the log issued for its first k events, k = number of events posted
			k := 1
			if req.URL.Path == "/events/bulk" {
				var eb protocol.EventsBulk
				if err := json.Unmarshal(body, &eb); err != nil {
					return reply(http.StatusBadRequest, err.Error())
				}
				k = len(eb.Events)
			}
			var out []*protocol.Snapshot
			for i := 0; i < k && i < len(s.log.snaps); i++ {
				sn := s.log.snaps[i]
				out = append(out, &protocol.Snapshot{EventDigest: sn.EventDigest, HistoryDigest: sn.HistoryDigest, HyperDigest: sn.HyperDigest, Version: sn.Version})
			}
			if req.URL.Path == "/events" {
				return reply(http.StatusCreated, out[0])
			}
			return reply(http.StatusCreated, out)
		case req.URL.Host == "store.verif" && req.URL.Path == "/snapshot":
			v, err := strconv.ParseUint(req.URL.Query().Get("v"), 10, 64)
			if err != nil || v >= uint64(len(s.log.snaps)) {
				return reply(http.StatusNotFound, "no such snapshot")
			}
			s.fetched = append(s.fetched, v)
			sn := s.log.snaps[v]
			return reply(http.StatusOK, &protocol.SignedSnapshot{Snapshot: &protocol.Snapshot{EventDigest: sn.EventDigest, HistoryDigest: sn.HistoryDigest, HyperDigest: sn.HyperDigest, Version: sn.Version}})
		}
		return reply(http.StatusNotFound, "unknown")
	}
}

// sameIncr: the answer is the genuine proof for the pair, possibly with additional entries the verifier never reads
func sameIncr(answered, genuine *protocol.IncrementalResponse) bool {
	if answered == nil || genuine == nil || answered.Start != genuine.Start || answered.End != genuine.End {
		return false
	}
	for k, v := range genuine.AuditPath {
		if w, ok := answered.AuditPath[k]; !ok || !bytes.Equal(w, v) {
			return false
		}
	}
	return true
}

func incrKey(r *protocol.IncrementalResponse) string {
	if r == nil {
		return "nil"
	}
	var ks []string
	for k, v := range r.AuditPath {
		ks = append(ks, fmt.Sprintf("%s=%x", k, []byte(v)))
	}
	sort.Strings(ks)
	return fmt.Sprintf("%d/%d/%v", r.Start, r.End, ks)
}

func clientvCmd(out *cq.Out, seed uint64, tier string) {
	rng := cq.NewRng(seed)
	var autoCases []string
	defer func() {
		f, _ := os.Create(out.Dir + "/cases.v")
		fmt.Fprintf(f, "From Coq Require Import List NArith Bool.\nFrom QV Require Import Run.AutoRun.\nImport ListNotations.\nOpen Scope N_scope.\n")
		fmt.Fprintf(f, "Definition cases : list auto_case := %s.\n", cq.List(autoCases))
		fmt.Fprintf(f, "Definition R := Eval vm_compute in run_auto_cases cases.\nPrint R.\n")
		f.Close()
	}()
	type logSpec struct {
		n      int
		forkAt int
		rounds int
	}
	specs := []logSpec{{n: 9 + rng.Intn(8), rounds: 160}, {n: 24 + rng.Intn(20), rounds: 200}, {n: 1040 + rng.Intn(90), rounds: 90}}
	if tier == "thorough" {
		specs = append(specs, logSpec{n: 130 + rng.Intn(60), rounds: 1500}, logSpec{n: 2060 + rng.Intn(100), rounds: 400})
	}
	for li, sp := range specs {
		sp.forkAt = 1 + rng.Intn(sp.n-2)
		lg, fk := newBRun(), newBRun()
		fill := func(r *bRun, upto int, other *bRun) {
			seenEv := map[string]bool{}
			for _, e := range r.events {
				seenEv[string(e)] = true
			}
			for len(r.events) < upto {
				k := 1
				if upto-len(r.events) > 40 {
					k = 64
				} else if rng.Intn(3) == 0 {
					k = 1 + rng.Intn(4)
				}
				if k > upto-len(r.events) {
					k = upto - len(r.events)
				}
				var evs [][]byte
				for j := 0; j < k; j++ {
					var e []byte
					if other != nil && len(r.events)+j < len(other.events) && len(r.events)+j < sp.forkAt {
						e = other.events[len(r.events)+j]
					} else if len(r.events) > 0 && rng.Intn(4) == 0 {
						e = sharePrefix(rng, r.events[rng.Intn(len(r.events))], prefixLens[rng.Intn(len(prefixLens))]%250)
					} else {
						e = rng.Bytes(32)
					}
					if seenEv[string(e)] { // the events of this scenario are distinct (a repeated event moves to its later version)
						e = rng.Bytes(32)
					}
					seenEv[string(e)] = true
					evs = append(evs, e)
				}
				r.add(evs, k == 1)
			}
		}
		fill(lg, sp.n, nil)
		fill(fk, sp.n, lg)
		if lg.addPanic != "" || fk.addPanic != "" {
			out.Violate("C01:add-panic", "Balloon.Add/AddBulk panicked while the log of the client scenario was built: "+lg.addPanic+fk.addPanic, map[string]interface{}{"seed": seed, "log": li})
			continue
		}
		index := map[string]uint64{} // digest -> version (events are distinct with overwhelming probability; first occurrence kept)
		for v, e := range lg.events {
			if _, ok := index[string(e)]; !ok {
				index[string(e)] = uint64(v)
			}
		}
		cur := uint64(sp.n - 1)
		srv := &cvServer{log: lg, fork: fk, forkAt: uint64(sp.forkAt)}
		// a fresh client per call: an endpoint that answered an error once is marked dead for good when health checks are off
		mk := func() *client.HTTPClient {
			c, err := client.NewHTTPClient(client.SetHttpClient(&http.Client{Transport: srv.transport(), Timeout: 20 * time.Second}), client.SetURLs("http://qed.verif"),
				client.SetSnapshotStoreURL("http://store.verif"), client.SetReadPreference(client.Any), client.SetTopologyDiscovery(false), client.SetHealthChecks(false),
				client.SetMaxRetries(0), client.SetHasherFunction(hashing.NewSha256Hasher))
			if err != nil {
				panic(err)
			}
			return c
		}
		mmodes := []string{"honest", "honest", "honest", "other-version", "query-rewritten", "victim-proof", "victim-proof-own-key", "forged64", "forged64-relabelled", "absent-for-present", "fork", "field", "exists-flipped"}
		imodes := []string{"honest", "honest", "honest", "other-pair", "pair-rewritten", "fork", "fork-short"}
		pickV := func() uint64 {
			switch rng.Intn(6) {
			case 0:
				return cur
			case 1:
				return uint64(rng.Intn(3))
			case 2:
				if sp.n > 1030 {
					return uint64(1020 + rng.Intn(sp.n-1020))
				}
			}
			return uint64(rng.Intn(sp.n))
		}
		// insertion answers of every size come back unchanged (a bulk of hundreds of snapshots is tens of kilobytes)
		for _, k := range []int{1, 2, 21, 22, 40, 300, 1000} {
			if k > sp.n {
				continue
			}
			evs := make([]string, k)
			for i := range evs {
				evs[i] = fmt.Sprintf("e%d", i)
			}
			var got []*protocol.Snapshot
			var cerr error
			c := mk()
			class, site, msg := guarded(func() {
				if k == 1 {
					var one *protocol.Snapshot
					one, cerr = c.Add(evs[0])
					got = []*protocol.Snapshot{one}
				} else {
					got, cerr = c.AddBulk(evs)
				}
			})
			c.Close()
			out.Case(fmt.Sprintf("add:%d:%d", li, k), k > 1)
			out.Count("insertion_answers", 1)
			desc := map[string]interface{}{"seed": seed, "log": li, "events_in_bulk": k}
			bad := class != "ok" || cerr != nil || len(got) != k
			for i := 0; !bad && i < k; i++ {
				sn := lg.snaps[i]
				bad = got[i] == nil || got[i].Version != sn.Version || !bytes.Equal(got[i].EventDigest, sn.EventDigest) || !bytes.Equal(got[i].HistoryDigest, sn.HistoryDigest) || !bytes.Equal(got[i].HyperDigest, sn.HyperDigest)
			}
			if bad {
				out.Violate("C13:insertion-answer-lost-on-the-wire", fmt.Sprintf("the server answered an insertion of %d events with their %d snapshots; the client returned %d snapshots / error %v (%s %s %.100s)", k, k, len(got), cerr, class, site, msg), desc)
			}
		}
		time.Sleep(50 * time.Millisecond)
		goroutinesBefore := runtime.NumGoroutine()
		for t := 0; t < sp.rounds; t++ {
			srv.mu.Lock()
			srv.fetched, srv.lastMemb, srv.lastIncr, srv.answerErr = nil, nil, nil, false
			srv.mu.Unlock()
			if rng.Intn(5) < 3 { // ---------------- membership
				mode := mmodes[rng.Intn(len(mmodes))]
				v := pickV()
				var d []byte
				fake := false
				switch mode {
				case "victim-proof", "victim-proof-own-key", "forged64", "forged64-relabelled":
					srv.alt = pickV()
					if srv.alt == 0 {
						srv.alt = cur
					}
					if mode == "forged64" || mode == "forged64-relabelled" {
						srv.victim = lg.events[srv.alt]
						if rng.Intn(2) == 0 {
							v = srv.alt
						}
					} else {
						srv.victim = lg.events[rng.Intn(int(v)+1)]
					}
					d = append([]byte{}, srv.victim...)
					d[31] ^= byte(1 + rng.Intn(255)) // shares 248+ bits with the victim
					if rng.Intn(3) == 0 {
						d = sharePrefix(rng, srv.victim, 24+rng.Intn(200))
					}
					_, present := index[string(d)]
					fake = !present
				case "absent-for-present":
					d = lg.events[rng.Intn(int(v)+1)]
					srv.victim = rng.Bytes(32)
				default:
					d = lg.events[rng.Intn(sp.n)]
					if rng.Intn(6) == 0 {
						d = rng.Bytes(32)
					}
					srv.alt, srv.alt2 = pickV(), pickV()
				}
				srv.mode = mode
				a, present := index[string(d)]
				truth := present && a <= v
				if present && a <= v {
					if _, ok := srv.honestMemb(lg, d, &v); !ok {
						out.Violate("C01:no-answer-for-a-stored-event", fmt.Sprintf("QueryDigestMembershipConsistency(event of version %d, version %d) on a %d-event log returns no answer", a, v, sp.n), map[string]interface{}{"seed": seed, "log": li, "events": sp.n, "inserted_at": a, "query_version": v})
					}
				}
				desc := map[string]interface{}{"seed": seed, "tier": tier, "log": li, "events": sp.n, "mode": mode, "digest": fmt.Sprintf("%x", d), "query_version": v, "inserted_at": a, "present": present, "alt": srv.alt, "alt2": srv.alt2, "round": t}
				// --- MembershipAutoVerify(d, &v)
				var ok bool
				var cerr error
				vv := v
				c := mk()
				class, site, msg := guarded(func() { ok, cerr = c.MembershipAutoVerify(d, &vv) })
				c.Close()
				c = mk()
				out.Case(fmt.Sprintf("m:%d:%s:%v:%d", li, mode, truth, v), mode != "honest")
				out.Count("membership_auto_"+mode, 1)
				if class != "ok" {
					out.Violate("C12:"+class+":client.MembershipAutoVerify", fmt.Sprintf("client.MembershipAutoVerify %s on a %s answer (%s %.150s)", class, mode, site, msg), desc)
				} else if ok && srv.lastMemb != nil && !srv.lastMemb.Exists {
					out.Violate("C02:absence-claim-accepted:client.MembershipAutoVerify", fmt.Sprintf("MembershipAutoVerify returned true for an answer that claims the digest does NOT exist (server strategy: %s)", mode), desc)
				} else if ok && !truth {
					desc["answer"] = srv.lastMemb
					out.Violate("C02:false-claim:client.MembershipAutoVerify:"+mode, fmt.Sprintf("MembershipAutoVerify(%x.., version %d) returned true on a %d-event log against an authentic snapshot store, but that digest was %s (server strategy: %s, fake digest=%v)",
						d[:4], v, sp.n, map[bool]string{true: fmt.Sprintf("inserted at version %d, later than the queried version", a), false: "never inserted"}[present], mode, fake), desc)
				} else if mode == "honest" && truth && !(ok && cerr == nil) {
					out.Violate("C01:honest-answer-rejected:client.MembershipAutoVerify", fmt.Sprintf("MembershipAutoVerify(event of version %d, version %d) on a %d-event log with an honest server and snapshot store returned %v (%v)", a, v, sp.n, ok, cerr), desc)
				}
				if ok {
					out.Count("membership_auto_accepted", 1)
				}
				// the control logic of MembershipAutoVerify against Balloon/AutoVerify.v: which snapshots, which versions
				srv.mu.Lock()
				m := srv.lastMemb
				srv.mu.Unlock()
				if class == "ok" && m != nil {
					hasq, hascur := m.QueryVersion < uint64(sp.n), m.CurrentVersion < uint64(sp.n)
					dv := false
					if hasq && (m.CurrentVersion == m.ActualVersion || hascur) {
						hy := lg.snaps[m.QueryVersion].HyperDigest
						if m.CurrentVersion != m.ActualVersion {
							hy = lg.snaps[m.CurrentVersion].HyperDigest
						}
						guarded(func() {
							dv = protocol.ToBalloonProof(m, hashing.NewSha256Hasher).DigestVerify(d, &balloon.Snapshot{EventDigest: d, HistoryDigest: lg.snaps[m.QueryVersion].HistoryDigest, HyperDigest: hy})
						})
					}
					autoCases = append(autoCases, fmt.Sprintf("(Some %s, (%s, %s, %s), (%s, %s), %s, %s)", cq.N(v), cq.N(m.QueryVersion), cq.N(m.CurrentVersion), cq.N(m.ActualVersion), cq.Bool(hasq), cq.Bool(hascur), cq.Bool(dv), cq.Bool(ok)))
				}
				// --- MembershipDigest + MembershipVerify with the caller's own snapshots
				var proof *balloon.MembershipProof
				var ok2 bool
				class, site, msg = guarded(func() {
					proof, cerr = c.MembershipDigest(d, &vv)
					if cerr != nil || proof == nil {
						return
					}
					snap := &balloon.Snapshot{EventDigest: d, HistoryDigest: lg.snaps[v].HistoryDigest, HyperDigest: lg.snaps[cur].HyperDigest, Version: v}
					if proof.CurrentVersion < uint64(sp.n) {
						snap.HyperDigest = lg.snaps[proof.CurrentVersion].HyperDigest
					}
					ok2, _ = c.MembershipVerify(d, proof, snap)
				})
				c.Close()
				if class != "ok" {
					out.Violate("C12:"+class+":client.MembershipVerify", fmt.Sprintf("client.MembershipDigest/MembershipVerify %s on a %s answer (%s %.150s)", class, mode, site, msg), desc)
				} else if ok2 && proof != nil && !proof.Exists {
					out.Violate("C02:absence-claim-accepted:client.MembershipVerify", fmt.Sprintf("MembershipVerify returned true for an answer that claims the digest %x.. does NOT exist (it %s; server strategy: %s)", d[:4], map[bool]string{true: fmt.Sprintf("was inserted at version %d", a), false: "was never inserted"}[present], mode), desc)
				} else if ok2 && !truth {
					out.Violate("C02:false-claim:client.MembershipVerify:"+mode, fmt.Sprintf("MembershipVerify accepted, against the authentic snapshot of version %d, an answer for %x.. which was %s (server strategy: %s)",
						v, d[:4], map[bool]string{true: fmt.Sprintf("inserted at version %d, later than that", a), false: "never inserted"}[present], mode), desc)
				} else if mode == "honest" && truth && !ok2 {
					out.Violate("C01:honest-answer-rejected:client.MembershipVerify", fmt.Sprintf("the genuine answer for the event of version %d at version %d of a %d-event log, fetched with client.MembershipDigest, is rejected by MembershipVerify", a, v, sp.n), desc)
				}
			} else { // ---------------- incremental
				mode := imodes[rng.Intn(len(imodes))]
				e := pickV()
				s := uint64(rng.Intn(int(e) + 1))
				if sp.n > 1030 && rng.Intn(2) == 0 {
					s = uint64(1020 + rng.Intn(int(e)+1-1020+1))
					if s > e {
						s = e
					}
				}
				srv.alt2 = pickV()
				srv.alt = uint64(rng.Intn(int(srv.alt2) + 1))
				if mode == "fork-short" {
					srv.alt2 = uint64(rng.Intn(sp.forkAt))
					srv.alt = uint64(rng.Intn(int(srv.alt2) + 1))
				}
				srv.mode = mode
				desc := map[string]interface{}{"seed": seed, "tier": tier, "log": li, "events": sp.n, "mode": mode, "start": s, "end": e, "alt_start": srv.alt, "alt_end": srv.alt2, "fork_at": sp.forkAt, "round": t}
				genuine, gok := (&cvServer{log: lg, mode: "honest"}).incremental(&protocol.IncrementalRequest{Start: s, End: e})
				var ok bool
				var cerr error
				c := mk()
				class, site, msg := guarded(func() { ok, cerr = c.IncrementalAutoVerify(s, e) })
				c.Close()
				c = mk()
				out.Case(fmt.Sprintf("i:%d:%s:%d:%d", li, mode, s, e), mode != "honest")
				out.Count("incremental_auto_"+mode, 1)
				srv.mu.Lock()
				answered, fetched := srv.lastIncr, append([]uint64{}, srv.fetched...)
				srv.mu.Unlock()
				same := gok && sameIncr(answered, genuine)
				if !gok {
					out.Violate("C03:no-proof-for-a-valid-pair", fmt.Sprintf("Balloon.QueryConsistency(%d, %d) on a %d-event log (newest version %d) returns no proof", s, e, sp.n, cur), desc)
				}
				switch {
				case class != "ok":
					out.Violate("C12:"+class+":client.IncrementalAutoVerify", fmt.Sprintf("client.IncrementalAutoVerify %s on a %s answer (%s %.150s)", class, mode, site, msg), desc)
				case ok && !same:
					desc["answer_start"], desc["answer_end"], desc["snapshots_fetched"] = answered.Start, answered.End, fetched
					what := "an answer that is not the proof for that pair"
					if mode == "fork" || mode == "fork-short" {
						what = fmt.Sprintf("the answer of a server whose log diverged from the published one at version %d (fork not exposed)", sp.forkAt)
					}
					out.Violate("C03:altered-accepted:client.IncrementalAutoVerify:"+mode, fmt.Sprintf("IncrementalAutoVerify(%d, %d) on a %d-event log returned true for %s: the answer carried versions (%d, %d), the snapshots fetched were %v (server strategy: %s)",
						s, e, sp.n, what, answered.Start, answered.End, fetched, mode), desc)
				case same && !(ok && cerr == nil):
					out.Violate("C03:honest-answer-rejected:client.IncrementalAutoVerify", fmt.Sprintf("IncrementalAutoVerify(%d, %d) on a %d-event log returned %v (%v) although the server sent the genuine proof and the snapshot store is authentic", s, e, sp.n, ok, cerr), desc)
				}
				if ok {
					out.Count("incremental_auto_accepted", 1)
				}
				// --- Incremental + IncrementalVerify with the caller's own snapshots
				var ok2 bool
				var ip *balloon.IncrementalProof
				class, site, msg = guarded(func() {
					ip, cerr = c.Incremental(s, e)
					if cerr != nil || ip == nil {
						return
					}
					ok2, _ = c.IncrementalVerify(ip, lg.snaps[s], lg.snaps[e])
				})
				c.Close()
				srv.mu.Lock()
				answered = srv.lastIncr
				srv.mu.Unlock()
				same = gok && sameIncr(answered, genuine)
				if class != "ok" {
					out.Violate("C12:"+class+":client.IncrementalVerify", fmt.Sprintf("client.Incremental/IncrementalVerify %s on a %s answer (%s %.150s)", class, mode, site, msg), desc)
				} else if ok2 && !same {
					out.Violate("C03:altered-accepted:client.IncrementalVerify:"+mode, fmt.Sprintf("IncrementalVerify accepted, against the authentic snapshots %d and %d of a %d-event log, an answer with versions (%d, %d) that is not the proof for that pair (server strategy: %s)", s, e, sp.n, answered.Start, answered.End, mode), desc)
				} else if same && !ok2 {
					out.Violate("C03:honest-answer-rejected:client.IncrementalVerify", fmt.Sprintf("the genuine proof for (%d, %d) of a %d-event log, fetched with client.Incremental, is rejected by IncrementalVerify against the authentic snapshots", s, e, sp.n), desc)
				}
			}
		}
		// ---- one client shared by several goroutines (an agent runs up to ten tasks at once on one client): genuine answers
		// fetched and verified at the same time all verify
		{
			srv.mu.Lock()
			srv.mode = "honest"
			srv.mu.Unlock()
			c := mk()
			var wg sync.WaitGroup
			var fmu sync.Mutex
			failures, panics, calls := 0, 0, 0
			firstFail := ""
			for g := 0; g < 8; g++ {
				wg.Add(1)
				go func(g int) {
					defer wg.Done()
					for i := 0; i < 40; i++ {
						ei := (g*131 + i*17) % sp.n
						v := uint64(ei) + uint64((g+i)%(sp.n-ei))
						d := lg.events[ei]
						okm, oki := false, false
						p, msg := cq.Catch(func() {
							proof, err := c.MembershipDigest(d, &v)
							if err != nil {
								fmu.Lock()
								if firstFail == "" {
									firstFail = fmt.Sprintf("MembershipDigest error: %v (log %d of %d events, event %d, version %d, mode %s)", err, li, sp.n, ei, v, srv.mode)
								}
								fmu.Unlock()
							}
							if err == nil && proof != nil {
								hy := lg.snaps[cur].HyperDigest
								okm = proof.DigestVerify(d, &balloon.Snapshot{EventDigest: d, HistoryDigest: lg.snaps[v].HistoryDigest, HyperDigest: hy, Version: v})
							}
							if ip, err := c.Incremental(uint64(ei), v); err == nil && ip != nil {
								oki = ip.Verify(lg.snaps[ei], lg.snaps[v])
							}
						})
						fmu.Lock()
						calls++
						if p {
							panics++
							if firstFail == "" {
								firstFail = "panic: " + msg
							}
						} else if !okm || !oki {
							failures++
							if firstFail == "" {
								firstFail = fmt.Sprintf("event %d at version %d: membership verifies=%v, incremental verifies=%v", ei, v, okm, oki)
							}
						}
						fmu.Unlock()
					}
				}(g)
			}
			wg.Wait()
			// a long-lived client asked for many version pairs, one after the other: every answer is the proof for the pair
			// asked (pairs whose decimal forms run together alike - (1,112) and (11,12) - included) and verifies
			if sp.n >= 113 {
				pairs := [][2]uint64{{1, 112}, {11, 12}, {12, 13}, {1, 213}, {10, 11}, {1, 1011}, {2, 113}, {21, 13}, {1, 12}, {11, 2}, {111, 112}, {11, 112}, {0, 112}, {0, 12}}
				for k := 0; k < 40; k++ {
					a := uint64((k*37 + 5) % sp.n)
					pairs = append(pairs, [2]uint64{a, a + uint64((k*11)%(sp.n-int(a)))})
				}
				bad, asked := 0, 0
				first := ""
				for round := 0; round < 2; round++ {
					for _, pr := range pairs {
						if pr[0] > pr[1] || pr[1] >= uint64(sp.n) {
							continue
						}
						asked++
						okp := false
						what := ""
						pn, msg := cq.Catch(func() {
							ip, err := c.Incremental(pr[0], pr[1])
							if err != nil || ip == nil {
								what = fmt.Sprintf("error %v", err)
								return
							}
							if ip.Start != pr[0] || ip.End != pr[1] {
								what = fmt.Sprintf("the client returned a proof for (%d,%d)", ip.Start, ip.End)
								return
							}
							okp = ip.Verify(lg.snaps[pr[0]], lg.snaps[pr[1]])
							if !okp {
								what = "the returned proof does not verify"
							}
						})
						if pn {
							what = "panic: " + msg
						}
						if !okp {
							bad++
							if first == "" {
								first = fmt.Sprintf("pair (%d,%d): %s", pr[0], pr[1], what)
							}
						}
					}
				}
				out.Count("one_client_many_pairs", asked)
				if bad > 0 {
					desc := map[string]interface{}{"seed": seed, "log": li, "events": sp.n}
					out.Violate("C13:genuine-answer-lost-on-the-wire:one-client-many-pairs", fmt.Sprintf("one client asked for %d version pairs of a %d-event log in a row: %d answers were not the genuine proof for the pair asked (first: %.200s)", asked, sp.n, bad, first), desc)
					out.Violate("C03:honest-answer-rejected:one-client-many-pairs", fmt.Sprintf("one client asked for %d version pairs of a %d-event log in a row: %d answers were not the genuine proof for the pair asked (first: %.200s)", asked, sp.n, bad, first), desc)
				}
			}
			c.Close()
			out.Case(fmt.Sprintf("shared-client:%d", li), true)
			out.Count("shared_client_calls", calls)
			if failures > 0 || panics > 0 {
				out.Violate("C03:honest-answer-rejected:shared-client", fmt.Sprintf("8 goroutines fetched and verified genuine answers (membership and consistency proofs) through one client at the same time: %d of %d were rejected and %d panicked (first: %.200s); one at a time they all verify", failures, calls, panics, firstFail),
					map[string]interface{}{"seed": seed, "log": li, "goroutines": 8})
				out.Violate("C13:genuine-answer-lost-on-the-wire:shared-client", fmt.Sprintf("8 goroutines fetched and verified genuine answers through one client at the same time: %d of %d were rejected and %d panicked (first: %.200s); one at a time they all verify", failures, calls, panics, firstFail),
					map[string]interface{}{"seed": seed, "log": li, "goroutines": 8})
				out.Violate("C01:honest-answer-rejected:shared-client", fmt.Sprintf("8 goroutines fetched and verified genuine answers through one client at the same time: %d of %d were rejected and %d panicked (first: %.200s)", failures, calls, panics, firstFail),
					map[string]interface{}{"seed": seed, "log": li, "goroutines": 8})
			}
		}
		// rejected answers must not leave anything running behind (a verifier that is fed hostile answers all day)
		leaked := 0
		for w := 0; w < 30; w++ {
			time.Sleep(100 * time.Millisecond)
			leaked = runtime.NumGoroutine() - goroutinesBefore
			if leaked < 40 {
				break
			}
		}
		if leaked >= 40 {
			out.Violate("C12:goroutine-leak:client-verification", fmt.Sprintf("after %d verification calls on hostile and honest answers %d goroutines more than before are still alive 3 s later", sp.rounds, leaked), map[string]interface{}{"seed": seed, "log": li, "rounds": sp.rounds, "goroutines_more": leaked})
		}
		out.Sample(map[string]interface{}{"log": li, "events": sp.n, "fork_at": sp.forkAt, "rounds": sp.rounds})
		lg.close()
		fk.close()
	}
}
