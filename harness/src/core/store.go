package main

import (
	"github.com/bbva/qed/storage"
	"github.com/bbva/qed/storage/bplus"
	"qedverif/cq"
	"qedverif/storeops"
)

func storeCmd(out *cq.Out, seed uint64, tier string) {
	storeops.Run(out, seed, tier, "bplus", func() storage.Store { return bplus.NewBPlusTreeStore() }, nil)
}
