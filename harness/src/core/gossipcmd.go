package main

import (
	"fmt"
	"github.com/coocood/freecache"
	"os"
	"sort"
	"strings"
	"sync"
	"time"

	"github.com/bbva/qed/gossip"
	"github.com/bbva/qed/log"
	"github.com/bbva/qed/protocol"
	"qedverif/cq"
)

// ---- C18: gossip routing, TTL, once-only processing (hook based) + a real two-agent TTL chain

type memCache struct {
	mu sync.Mutex
	m  map[string][]byte
}

func (c *memCache) Get(k []byte) ([]byte, error) {
	c.mu.Lock()
	defer c.mu.Unlock()
	v, ok := c.m[string(k)]
	if !ok {
		return nil, fmt.Errorf("not found")
	}
	return v, nil
}
func (c *memCache) Set(k, v []byte, exp int) error {
	c.mu.Lock()
	defer c.mu.Unlock()
	c.m[string(k)] = v
	return nil
}

func peerN(k int, role int) *gossip.Peer {
	return gossip.NewPeer(fmt.Sprintf("n%d", k), "127.0.0.1", uint16(9000+k), fmt.Sprintf("r%d", role))
}

func nameN(s string) uint64 { var k uint64; fmt.Sscanf(s, "n%d", &k); return k }

func gossipCmd(out *cq.Out, seed uint64, tier string) {
	rng := cq.NewRng(seed)
	ncases, nops := 40, 50
	if tier == "thorough" {
		ncases, nops = 300, 100
	}
	var cases []string
	for ci := 0; ci < ncases; ci++ {
		topo := gossip.NewTopology()
		// the cache an agent really has (gossip/options.go SetCache with the default size of gossip.DefaultConfig)
		cache := freecache.NewCache(gossip.DefaultConfig().CacheSize)
		delivered := map[int]bool{}
		roleOf := map[int]int{} // current role of each name in the harness' view
		known := map[int]bool{}
		var ops, hist []string
		npeers, nroles := 2+rng.Intn(6), 1+rng.Intn(4)
		fail := func(sig, what string) {
			out.Violate("C18:"+sig, what, map[string]interface{}{"case": ci, "seed": seed, "ops": hist})
		}
		for k := 0; k < nops; k++ {
			switch r := rng.Intn(20); {
			case r < 5:
				n := 1 + rng.Intn(npeers)
				role, had := roleOf[n]
				if !had {
					role = rng.Intn(nroles)
				}
				roleOf[n] = role
				known[n] = true
				topo.Update(peerN(n, role))
				ops = append(ops, fmt.Sprintf("GUpdate %d%%N %d%%N", role, n))
				hist = append(hist, fmt.Sprintf("Update(n%d,r%d)", n, role))
			case r < 8:
				n := 1 + rng.Intn(npeers)
				role, had := roleOf[n]
				if !had {
					role = rng.Intn(nroles + 2) // possibly a role nobody ever had
				}
				p := peerN(n, role)
				panicked, msg := cq.Catch(func() { topo.Delete(p) })
				if panicked {
					fail("panic:topology-delete", fmt.Sprintf("Topology.Delete panicked for a peer whose role has no list: %.120s", msg))
				}
				delete(known, n)
				ops = append(ops, fmt.Sprintf("GDelete %d%%N %d%%N", role, n))
				hist = append(hist, fmt.Sprintf("Delete(n%d,r%d)", n, role))
			case r < 10:
				role := rng.Intn(nroles)
				l := topo.Get(fmt.Sprintf("r%d", role))
				obs := "None"
				if l != nil {
					var ns []string
					for _, p := range l.L {
						ns = append(ns, cq.N(nameN(p.Name)))
					}
					obs = "(Some " + cq.List(ns) + ")"
				}
				ops = append(ops, fmt.Sprintf("GGet %d%%N %s", role, obs))
			case r < 15:
				self, src := 1+rng.Intn(npeers), 1+rng.Intn(npeers)
				var dst []string
				panicked, msg := cq.Catch(func() { dst = gossip.VRoute(peerN(self, 0), topo, peerN(src, 0)) })
				if panicked {
					fail("panic:route", msg)
					continue
				}
				var dl []string
				for _, d := range dst {
					dl = append(dl, cq.N(nameN(d)))
					if nameN(d) == uint64(self) {
						fail("routed-to-self", fmt.Sprintf("agent n%d routed a message to itself", self))
					}
				}
				out.Case(fmt.Sprintf("route:%d:%d", ci, k), len(dst) > 0)
				ops = append(ops, fmt.Sprintf("GRoute %d%%N %d%%N %s", self, src, cq.List(dl)))
				hist = append(hist, fmt.Sprintf("route(self n%d, src n%d)=%v", self, src, dst))
			case r < 18:
				ttl := []int{0, 1, 2, 3, 5, -1, -7, 100}[rng.Intn(8)]
				after := gossip.VSendLocal(peerN(1, 0), ttl)
				if ttl <= 0 && after != ttl {
					fail("exhausted-ttl-sent-on", fmt.Sprintf("Agent.Send forwards a message whose TTL is %d (left with %d)", ttl, after))
				}
				if ttl > 0 && after >= ttl {
					fail("ttl-not-lowered", fmt.Sprintf("Agent.Send did not lower TTL %d (left with %d)", ttl, after))
				}
				out.Case(fmt.Sprintf("send:%d:%d", ci, k), ttl != 0)
				ops = append(ops, fmt.Sprintf("GSend (%d)%%Z (%d)%%Z", ttl, after))
			default:
				d := rng.Intn(6)
				// batch number d: realistic sizes (the sender batches up to 500 signed snapshots of ~320 encoded bytes)
				nsn := []int{1, 3, 5, 20, 100, 500}[d]
				b := &protocol.BatchSnapshots{}
				for j := 0; j < nsn; j++ {
					dg := func(tag byte) []byte {
						x := make([]byte, 32)
						x[0], x[1], x[2], x[31] = tag, byte(d), byte(j>>8), byte(j)
						return x
					}
					sg := make([]byte, 64)
					copy(sg, dg(9))
					b.Snapshots = append(b.Snapshots, &protocol.SignedSnapshot{Snapshot: &protocol.Snapshot{EventDigest: dg(1), HistoryDigest: dg(2), HyperDigest: dg(3), Version: uint64(d*1000 + j)}, Signature: sg})
				}
				seen := gossip.VWasProcessed(cache, b)
				if seen != delivered[d] {
					if delivered[d] {
						fail("batch-processed-twice", fmt.Sprintf("a batch of %d signed snapshots that was delivered before is processed again", nsn))
					} else {
						fail("batch-dropped", fmt.Sprintf("a batch of %d signed snapshots delivered for the first time is treated as already processed", nsn))
					}
				}
				delivered[d] = true
				ops = append(ops, fmt.Sprintf("GDeliver %d%%N %s", d, cq.Bool(seen)))
				hist = append(hist, fmt.Sprintf("deliver(b%d)=%v", d, seen))
				out.Case(fmt.Sprintf("deliver:%d:%d", ci, k), seen)
			}
		}
		out.Sample(map[string]interface{}{"case": ci, "peers": npeers, "roles": nroles, "ops": hist})
		cases = append(cases, cq.List(ops))
	}
	// membership notifications as memberlist delivers them (join / leave / update of named peers with a role): after each
	// one the agent's view is exactly the set of peers that joined (or were updated) and have not left since
	{
		roles := []string{"auditor", "monitor", "publisher"}
		var evs []gossip.VMemberEvent
		for i := 0; i < 120; i++ {
			p := rng.Intn(7)
			kind := []int{0, 0, 1, 2}[rng.Intn(4)]
			evs = append(evs, gossip.VMemberEvent{Kind: kind, Name: fmt.Sprintf("n%d", p), Role: roles[p%3], Port: uint16(7000 + p)})
		}
		views := gossip.VDelegateView(evs, roles)
		present := map[string]bool{}
		// the same notifications as a case of the model (Gossip/GossipView.v: view_consistent): after each one the peers
		// listed for the role concerned, as a set
		var mops []string
		roleIx := map[string]int{"auditor": 0, "monitor": 1, "publisher": 2}
		for i, e := range evs {
			var pn int
			fmt.Sscanf(e.Name, "n%d", &pn)
			if e.Kind == 1 {
				mops = append(mops, fmt.Sprintf("GDelete %d%%N %d%%N", roleIx[e.Role], pn))
			} else {
				mops = append(mops, fmt.Sprintf("GUpdate %d%%N %d%%N", roleIx[e.Role], pn))
			}
			var listed []string
			for _, x := range views[i] {
				if strings.HasPrefix(x, e.Role+"/") {
					var q int
					fmt.Sscanf(strings.TrimPrefix(x, e.Role+"/"), "n%d", &q)
					listed = append(listed, cq.N(uint64(q)))
				}
			}
			mops = append(mops, fmt.Sprintf("GMembers %d%%N %s", roleIx[e.Role], cq.List(listed)))
		}
		cases = append(cases, cq.List(mops))
		for i, e := range evs {
			id := e.Role + "/" + e.Name
			if e.Kind == 1 {
				delete(present, id)
			} else {
				present[id] = true
			}
			var want []string
			for _, r := range roles {
				var ns []string
				for k := range present {
					if strings.HasPrefix(k, r+"/") {
						ns = append(ns, k)
					}
				}
				sort.Strings(ns)
				want = append(want, ns...)
			}
			if strings.Join(views[i], ",") != strings.Join(want, ",") {
				out.Violate("C18:view-inconsistent-after-membership-event", fmt.Sprintf("after %d membership notifications (the last: kind %d for %s) the agent lists [%s]; the peers that joined and have not left are [%s]", i+1, e.Kind, id, strings.Join(views[i], ","), strings.Join(want, ",")),
					map[string]interface{}{"seed": seed, "events": i + 1})
				break
			}
			out.Case(fmt.Sprintf("member:%d:%d", e.Kind, len(present)), true)
		}
		out.Count("membership_notifications", len(evs))
	}
	// the same batch arriving several times at once (gossip fan-in) at an agent whose cache answers in a millisecond: its
	// tasks are created once and it is forwarded once
	{
		for trial := 0; trial < 3; trial++ {
			cache := freecache.NewCache(gossip.DefaultConfig().CacheSize)
			b := &protocol.BatchSnapshots{}
			for j := 0; j < 5; j++ {
				x := make([]byte, 32)
				x[0], x[1], x[31] = 88, byte(trial), byte(j)
				b.Snapshots = append(b.Snapshots, &protocol.SignedSnapshot{Snapshot: &protocol.Snapshot{EventDigest: x, HistoryDigest: x, HyperDigest: x, Version: uint64(j)}, Signature: append(make([]byte, 32), x...)})
			}
			tasks, fwd := gossip.VProcessorCopies(cache, time.Millisecond, 8, b)
			out.Case(fmt.Sprintf("fan-in:%d", trial), true)
			out.Count("fan_in_trials", 1)
			if tasks != 1 || fwd != 1 {
				out.Violate("C18:batch-processed-twice:simultaneous-copies", fmt.Sprintf("8 copies of one batch published on the agent's bus at once (cache latency 1 ms): tasks were created %d times and the batch was forwarded %d times; expected 1 and 1", tasks, fwd),
					map[string]interface{}{"seed": seed, "copies": 8, "cache_latency_ms": 1})
				break
			}
		}
	}
	// a batch that comes back late: longer after its first arrival than any timeout of the agent's configuration
	// (gossip redelivers through other peers at arbitrary times); it must still be recognised
	{
		cache := freecache.NewCache(gossip.DefaultConfig().CacheSize)
		b := &protocol.BatchSnapshots{}
		for j := 0; j < 7; j++ {
			x := make([]byte, 32)
			x[0], x[31] = 77, byte(j)
			b.Snapshots = append(b.Snapshots, &protocol.SignedSnapshot{Snapshot: &protocol.Snapshot{EventDigest: x, HistoryDigest: x, HyperDigest: x, Version: uint64(j)}, Signature: append(make([]byte, 32), x...)})
		}
		first := gossip.VWasProcessedCfg(cache, b, time.Second)
		again := gossip.VWasProcessedCfg(cache, b, time.Second)
		time.Sleep(2300 * time.Millisecond)
		late := gossip.VWasProcessedCfg(cache, b, time.Second)
		out.Case("late-redelivery", true)
		out.Count("late_redeliveries", 1)
		if first || !again || !late {
			out.Violate("C18:batch-processed-twice:late-redelivery", fmt.Sprintf("a batch delivered, delivered again at once and once more 2.3 s later (agent broadcast timeout 1 s) is reported as already processed = %v, %v, %v; expected false, true, true", first, again, late),
				map[string]interface{}{"seed": seed, "broadcast_timeout_s": 1, "redelivered_after_ms": 2300})
		}
	}
	// ---- an agent with two task factories (the monitor registers two) whose task manager refuses the second factory's task:
	// the same batch arriving again must not run the first factory's task a second time
	{
		cache := freecache.NewCache(gossip.DefaultConfig().CacheSize)
		b := &protocol.BatchSnapshots{}
		for j := 0; j < 5; j++ {
			x := make([]byte, 32)
			x[0], x[31] = 91, byte(j)
			b.Snapshots = append(b.Snapshots, &protocol.SignedSnapshot{Snapshot: &protocol.Snapshot{EventDigest: x, HistoryDigest: x, HyperDigest: x, Version: uint64(100 + j)}, Signature: append(make([]byte, 32), x...)})
		}
		n1, n2 := gossip.VRedeliverRefusing(cache, b, 3)
		out.Case("refusing-task-manager", true)
		if n1 > 1 || n2 > 1 {
			out.Violate("C18:batch-processed-twice:task-refused", fmt.Sprintf("an agent with two task factories whose task manager refused the second factory's task: the same batch arrived 3 times and the factories created %d and %d tasks for it (at most one each)", n1, n2),
				map[string]interface{}{"seed": seed, "scenario": "task manager refuses a task, batch redelivered", "deliveries": 3})
		}
	}
	f, _ := os.Create(out.Dir + "/cases.v")
	fmt.Fprintf(f, "From Coq Require Import List NArith ZArith.\nFrom QV Require Import Gossip.Gossip Run.GossipRun.\nImport ListNotations.\nOpen Scope N_scope.\n")
	fmt.Fprintf(f, "Definition cases : list (list gop) := %s.\n", cq.List(cases))
	fmt.Fprintf(f, "Definition R := Eval vm_compute in run_gossip_cases cases.\nPrint R.\n")
	f.Close()
	ttlChain(out, rng, seed)
	deadPeer(out, rng, seed)
	viewStress(out, seed)
}

// ---- two real agents on the loopback interface, no dedup cache: the TTL on the wire must fall at every hop
type tap struct {
	name string
	p    *gossip.BatchProcessor
	mu   *sync.Mutex
	log  *[]int
}

func (r *tap) Subscribe(id int, ch <-chan *gossip.Message) {
	fwd := make(chan *gossip.Message, 1024)
	r.p.Subscribe(id, fwd)
	go func() {
		for m := range ch {
			r.mu.Lock()
			*r.log = append(*r.log, m.TTL)
			r.mu.Unlock()
			fwd <- m
		}
	}()
}

// an agent whose memberlist could not bind its port (taken by another process) has nothing to shut down
func safeShutdown(a *gossip.Agent) {
	defer func() { recover() }()
	a.Shutdown()
}

func startAgent(name, role, bind string, join []string, mu *sync.Mutex, lg *[]int) (*gossip.Agent, error) {
	conf := gossip.DefaultConfig()
	conf.NodeName, conf.Role, conf.BindAddr, conf.StartJoin = name, role, bind, join
	a, err := gossip.NewAgentFromConfig(conf)
	if err != nil {
		return nil, err
	}
	a.Cache = nil
	p := gossip.NewBatchProcessor(a, nil, log.L())
	a.In.Subscribe(gossip.BatchMessageType, &tap{name: name, p: p, mu: mu, log: lg}, 1024)
	a.Start()
	return a, nil
}

func ttlChain(out *cq.Out, rng *cq.Rng, seed uint64) {
	for attempt := 0; attempt < 3; attempt++ {
		base := 20000 + rng.Intn(20000)
		var mu sync.Mutex
		var wire []int
		a, err := startAgent("va", "auditor", fmt.Sprintf("127.0.0.1:%d", base), nil, &mu, &wire)
		if err != nil {
			continue // port clash: infrastructure, retry
		}
		b, err := startAgent("vb", "monitor", fmt.Sprintf("127.0.0.1:%d", base+1), []string{fmt.Sprintf("127.0.0.1:%d", base)}, &mu, &wire)
		if err != nil {
			safeShutdown(a)
			continue
		}
		ok := false
		for i := 0; i < 200; i++ {
			la, lb := a.VTopology().Get("monitor"), b.VTopology().Get("auditor")
			if la != nil && la.Size() == 1 && lb != nil && lb.Size() == 1 {
				ok = true
				break
			}
			time.Sleep(50 * time.Millisecond)
		}
		if !ok {
			safeShutdown(a)
			safeShutdown(b)
			continue
		}
		const initial = 4
		batch := &protocol.BatchSnapshots{Snapshots: []*protocol.SignedSnapshot{{Snapshot: &protocol.Snapshot{Version: 7}, Signature: []byte("s")}}}
		payload, _ := batch.Encode()
		a.Out.Publish(&gossip.Message{Kind: gossip.BatchMessageType, TTL: initial, Payload: payload})
		time.Sleep(2500 * time.Millisecond)
		mu.Lock()
		got := append([]int{}, wire...)
		mu.Unlock()
		safeShutdown(a)
		safeShutdown(b)
		out.Count("ttl_chain_deliveries", len(got))
		out.Case("ttlchain", len(got) > 1)
		sorted := append([]int{}, got...)
		sort.Sort(sort.Reverse(sort.IntSlice(sorted)))
		prev := initial
		for i, t := range sorted {
			if t >= prev {
				out.Violate("C18:ttl-not-lowered-on-the-wire", fmt.Sprintf("two agents without dedup cache, initial TTL %d: delivery %d arrived with TTL %d after a hop that carried %d (deliveries %v)", initial, i, t, prev, got),
					map[string]interface{}{"seed": seed, "deliveries": got})
				break
			}
			prev = t
		}
		if len(got) > initial {
			out.Violate("C18:dissemination-not-bounded-by-ttl", fmt.Sprintf("a batch with TTL %d was delivered %d times", initial, len(got)), map[string]interface{}{"seed": seed, "deliveries": got})
		}
		if len(got) == 0 {
			out.Violate("C18:batch-never-delivered", "the batch published on the out bus never reached the other agent", map[string]interface{}{"seed": seed})
		}
		return
	}
	out.Count("ttl_chain_skipped_infrastructure", 1)
}

// ---- a peer that died without leaving: three agents of three roles; the monitor's sockets go away (no Leave), and before the
// failure detector notices, the origin publishes a batch with TTL 2. Each send picks one peer per role, so one destination
// is unreachable; the healthy auditor must still see the batch at most TTL times, each time with a lower TTL.
func deadPeer(out *cq.Out, rng *cq.Rng, seed uint64) {
	for attempt := 0; attempt < 3; attempt++ {
		base := 20000 + rng.Intn(20000)
		var mu sync.Mutex
		var wo, wa, wm []int
		addr := func(k int) string { return fmt.Sprintf("127.0.0.1:%d", base+k) }
		o, err := startAgent("vo", "publisher", addr(0), nil, &mu, &wo)
		if err != nil {
			continue
		}
		a, err := startAgent("va", "auditor", addr(1), []string{addr(0)}, &mu, &wa)
		if err != nil {
			safeShutdown(o)
			continue
		}
		m, err := startAgent("vm", "monitor", addr(2), []string{addr(0)}, &mu, &wm)
		if err != nil {
			safeShutdown(o)
			safeShutdown(a)
			continue
		}
		ok := false
		for i := 0; i < 200; i++ {
			la, lm := o.VTopology().Get("auditor"), o.VTopology().Get("monitor")
			if la != nil && la.Size() == 1 && lm != nil && lm.Size() == 1 {
				ok = true
				break
			}
			time.Sleep(50 * time.Millisecond)
		}
		if !ok {
			safeShutdown(o)
			safeShutdown(a)
			safeShutdown(m)
			continue
		}
		safeShutdown(m) // the monitor crashes: no Leave
		const initial = 2
		batch := &protocol.BatchSnapshots{Snapshots: []*protocol.SignedSnapshot{{Snapshot: &protocol.Snapshot{Version: 9}, Signature: []byte("d")}}}
		payload, _ := batch.Encode()
		o.Out.Publish(&gossip.Message{Kind: gossip.BatchMessageType, TTL: initial, Payload: payload})
		time.Sleep(2500 * time.Millisecond)
		mu.Lock()
		got := append([]int{}, wa...)
		mu.Unlock()
		safeShutdown(o)
		safeShutdown(a)
		out.Count("dead_peer_deliveries", len(got))
		out.Case("deadpeer", true)
		if len(got) > initial {
			sample := got
			if len(sample) > 12 {
				sample = sample[:12]
			}
			out.Violate("C18:dissemination-not-bounded-by-ttl:dead-peer", fmt.Sprintf("three agents, one of them dead but not yet detected: a batch published with TTL %d reached the healthy auditor %d times (TTLs of the first deliveries %v)", initial, len(got), sample),
				map[string]interface{}{"seed": seed, "scenario": "a peer died without leaving", "deliveries": len(got)})
		}
		for _, t := range got {
			if t >= initial {
				out.Violate("C18:ttl-not-lowered-on-the-wire:dead-peer", fmt.Sprintf("a batch published with TTL %d arrived at the auditor with TTL %d", initial, t), map[string]interface{}{"seed": seed, "scenario": "a peer died without leaving"})
				break
			}
		}
		return
	}
	out.Count("dead_peer_skipped_infrastructure", 1)
}

// ---- concurrent joins/leaves and routing decisions: the view must stay a set of the members that joined and did not leave
func viewStress(out *cq.Out, seed uint64) {
	topo := gossip.NewTopology()
	const members = 24
	for i := 1; i <= members; i++ {
		topo.Update(peerN(i, i%2))
	}
	self := peerN(99, 0)
	var wg sync.WaitGroup
	stop := make(chan struct{})
	var routed int64
	var mu sync.Mutex
	bad := ""
	for g := 0; g < 6; g++ {
		wg.Add(1)
		go func() {
			defer wg.Done()
			for {
				select {
				case <-stop:
					return
				default:
				}
				p, msg := cq.Catch(func() {
					for _, d := range gossip.VRoute(self, topo, self) {
						if d == "n99" {
							mu.Lock()
							bad = "routed to self"
							mu.Unlock()
						}
					}
				})
				if p {
					mu.Lock()
					bad = "panic: " + msg
					mu.Unlock()
				}
				mu.Lock()
				routed++
				mu.Unlock()
			}
		}()
	}
	// membership churn on other names while routing runs
	for k := 0; k < 3000; k++ {
		n := 100 + k%7
		topo.Update(peerN(n, n%2))
		topo.Delete(peerN(n, n%2))
	}
	close(stop)
	wg.Wait()
	out.Count("view_stress_routes", int(routed))
	out.Case("viewstress", routed > 100)
	seenN := map[string]int{}
	total := 0
	for _, r := range []string{"r0", "r1"} {
		if l := topo.Get(r); l != nil {
			for _, p := range l.L {
				if p != nil {
					seenN[p.Name]++
					total++
				}
			}
		}
	}
	if bad != "" {
		out.Violate("C18:view:"+bad[:5], "during concurrent routing and membership changes: "+bad, map[string]interface{}{"seed": seed})
	}
	if len(seenN) != members || total != members {
		out.Violate("C18:view-inconsistent", fmt.Sprintf("%d members joined and none left, the view holds %d entries for %d distinct names", members, total, len(seenN)), map[string]interface{}{"seed": seed})
	}
}
