package main

import (
	"encoding/json"
	"fmt"
	"net/http"
	"net/http/httptest"
	"os"
	"strings"
	"sync"
	"time"

	"github.com/bbva/qed/client"
	"github.com/bbva/qed/crypto/hashing"
	"github.com/bbva/qed/protocol"
	"qedverif/cq"
)

// ---- C20: endpoint selection state machine (via the verif hook) and whole-client calls

var prefNames = []string{"PPrimary", "PPrimaryPreferred", "PSecondary", "PSecondaryPreferred", "PAny"}

func urlN(u string) uint64 { // "uK" -> K, "" -> 0
	if u == "" {
		return 0
	}
	var k uint64
	fmt.Sscanf(u, "u%d", &k)
	return k
}

func topoCmd(out *cq.Out, seed uint64, tier string) {
	rng := cq.NewRng(seed)
	ncases := 60
	nops := 40
	if tier == "thorough" {
		ncases, nops = 400, 80
	}
	var cases []string
	for ci := 0; ci < ncases; ci++ {
		revive := rng.Intn(4) == 0
		vt := client.NewVTopology(revive)
		var ops []string
		var hist []string
		pool := 2 + rng.Intn(5) // urls u1..u{pool}
		pick := func() string {
			if rng.Intn(12) == 0 {
				return ""
			}
			return fmt.Sprintf("u%d", 1+rng.Intn(pool))
		}
		for k := 0; k < nops; k++ {
			switch r := rng.Intn(20); {
			case r < 3 || k == 0: // Update
				prim := pick()
				var secs []string
				ns := rng.Intn(pool + 1)
				for j := 0; j < ns; j++ {
					secs = append(secs, pick())
				}
				vt.Update(prim, secs...)
				var sl []string
				for _, s := range secs {
					sl = append(sl, cq.N(urlN(s)))
				}
				ops = append(ops, fmt.Sprintf("TUpdate %s %s", cq.N(urlN(prim)), cq.List(sl)))
				hist = append(hist, fmt.Sprintf("Update(%q,%v)", prim, secs))
			case r < 12: // NextRead
				p := rng.Intn(5)
				before := vt.Endpoints()
				primBefore, primCode := vt.Primary()
				e, ok := vt.NextRead(client.ReadPref(p))
				obs := "None"
				if ok {
					obs = "(Some " + cq.N(urlN(e.URL)) + ")"
				}
				ops = append(ops, fmt.Sprintf("TNext %s %s", prefNames[p], obs))
				hist = append(hist, fmt.Sprintf("NextRead(%s)=%v,%v", prefNames[p], e.URL, ok))
				out.Case(fmt.Sprintf("next:%d:%d", ci, k), len(before) > 1)
				// ---- direct oracles on the implementation
				livePrimary := primCode == 0
				permitted := func(x client.VEndpoint, isPrimaryObj bool) bool {
					switch p {
					case 0:
						return isPrimaryObj
					case 1, 3:
						return isPrimaryObj || x.Secondary
					case 2:
						return x.Secondary
					default:
						return true
					}
				}
				// roles come from the latest Update: the primary object is the leader, every other listed endpoint a secondary
				existsLive := false
				for _, x := range before {
					isPrimObj := primCode != 1 && x.Is(primBefore)
					if !x.Dead && p != 0 && (p == 4 || !isPrimObj) {
						existsLive = true
					}
				}
				if livePrimary && (p == 0 || p == 1 || p == 3) {
					existsLive = true
				}
				if ok && e.Dead {
					out.Violate("C20:dead-endpoint-selected", fmt.Sprintf("NextReadEndpoint(%s) returned an endpoint marked dead (%s)", prefNames[p], e.URL),
						map[string]interface{}{"case": ci, "seed": seed, "history": hist})
				}
				if ok {
					isPrim := livePrimary && e.Is(primBefore)
					inList := false
					for _, x := range before {
						if x.Is(e) {
							inList = true
						}
					}
					if !(isPrim && (p == 0 || p == 1 || p == 3)) && !(inList && permitted(e, false) && p != 0) {
						out.Violate("C20:not-permitted-endpoint", fmt.Sprintf("NextReadEndpoint(%s) returned %s which the preference excludes", prefNames[p], e.URL),
							map[string]interface{}{"case": ci, "seed": seed, "history": hist})
					}
				}
				if !ok && existsLive {
					out.Violate("C20:no-endpoint-although-live", fmt.Sprintf("NextReadEndpoint(%s) returned ErrNoEndpoint although a live permitted endpoint exists", prefNames[p]),
						map[string]interface{}{"case": ci, "seed": seed, "history": hist})
				}
			case r < 14:
				e, code := vt.Primary()
				ops = append(ops, fmt.Sprintf("TPrimary %s %s", cq.N(urlN(e.URL)), cq.N(uint64(code))))
			case r < 18:
				eps := vt.Endpoints()
				kind := rng.Intn(3)
				if len(eps) > 0 && rng.Intn(4) != 0 {
					j := rng.Intn(len(eps))
					eps[j].Mark(kind)
					ops = append(ops, fmt.Sprintf("TMarkEp %d %s", j, cq.N(uint64(kind))))
					hist = append(hist, fmt.Sprintf("Mark(ep %d,%d)", j, kind))
				} else {
					e, code := vt.Primary()
					if code != 1 {
						e.Mark(kind)
					}
					ops = append(ops, fmt.Sprintf("TMarkPrimary %s", cq.N(uint64(kind))))
					hist = append(hist, fmt.Sprintf("Mark(primary,%d)", kind))
				}
			default:
				var dl []string
				for _, x := range vt.Endpoints() {
					dl = append(dl, fmt.Sprintf("(%s,%s,%s)", cq.N(urlN(x.URL)), cq.Bool(x.Secondary), cq.Bool(x.Dead)))
				}
				ops = append(ops, "TDump "+cq.List(dl))
			}
		}
		out.Sample(map[string]interface{}{"case": ci, "revive": revive, "ops": hist})
		cases = append(cases, fmt.Sprintf("(%s, %s)", cq.Bool(revive), cq.List(ops)))
	}
	f, _ := os.Create(out.Dir + "/cases.v")
	fmt.Fprintf(f, "From Coq Require Import List NArith ZArith.\nFrom QV Require Import Client.Topology Run.ClientRun.\nImport ListNotations.\nOpen Scope N_scope.\n")
	fmt.Fprintf(f, "Definition cases : list (bool * list top) := %s.\n", cq.List(cases))
	fmt.Fprintf(f, "Definition R := Eval vm_compute in run_topo_cases cases.\nPrint R.\n")
	f.Close()
	clientScenarios(out, rng, seed, tier)
}

// ---- whole-client scenarios against scripted servers: writes go to the believed leader only, reads avoid
// dead endpoints, every call terminates.
type scripted struct {
	mu      sync.Mutex
	servers []*httptest.Server
	leader  int      // index of the node that answers as leader
	mode    []string // per server: ok | 500 | 404 | down | redirect
	log     []string // "k:METHOD path"
}

func (s *scripted) shards() []byte {
	sh := protocol.Shards{NodeId: "n0", LeaderId: fmt.Sprintf("n%d", s.leader), URIScheme: "http", Shards: map[string]protocol.ShardDetail{}}
	for i, srv := range s.servers {
		sh.Shards[fmt.Sprintf("n%d", i)] = protocol.ShardDetail{NodeId: fmt.Sprintf("n%d", i), HTTPAddr: strings.TrimPrefix(srv.URL, "http://")}
	}
	b, _ := json.Marshal(sh)
	return b
}

func newScripted(n int) *scripted {
	s := &scripted{mode: make([]string, n)}
	for i := 0; i < n; i++ {
		k := i
		s.mode[k] = "ok"
		s.servers = append(s.servers, httptest.NewServer(http.HandlerFunc(func(w http.ResponseWriter, r *http.Request) {
			s.mu.Lock()
			mode := s.mode[k]
			s.log = append(s.log, fmt.Sprintf("%d:%s %s", k, r.Method, r.URL.Path))
			leader := s.leader
			body := s.shards()
			s.mu.Unlock()
			switch mode {
			case "500":
				w.WriteHeader(500)
				return
			case "404":
				w.WriteHeader(404)
				return
			case "down":
				hj, _ := w.(http.Hijacker)
				c, _, _ := hj.Hijack()
				c.Close()
				return
			}
			if r.URL.Path == "/info/shards" {
				w.Write(body)
				return
			}
			if r.Method == "POST" && r.URL.Path == "/events" && k != leader {
				w.Header().Set("Location", s.servers[leader].URL+r.URL.Path)
				w.WriteHeader(http.StatusMovedPermanently)
				w.Write(body)
				return
			}
			if r.URL.Path == "/events" && r.Method != "POST" {
				w.WriteHeader(405) // what the real mux answers after the http client turned the redirected POST into a GET
				return
			}
			if r.URL.Path == "/events" {
				w.WriteHeader(201)
				w.Write([]byte(`{"EventDigest":"AA==","HistoryDigest":"AA==","HyperDigest":"AA==","Version":0}`))
				return
			}
			w.Write([]byte(`{"Start":0,"End":0,"AuditPath":{}}`))
		})))
	}
	return s
}

func (s *scripted) close() {
	for _, x := range s.servers {
		x.Close()
	}
}

// leaderLoss: the believed leader stops answering for good and another node is elected; with discovery on (the
// default) the client must find the new leader through any live node, whatever the read preference is, and both
// writes and reads must succeed again within a few calls.
func leaderLoss(out *cq.Out, seed uint64) {
	for pref := 0; pref < 5; pref++ {
		for _, revive := range []bool{false, true} {
			s := newScripted(3)
			s.leader = 0
			desc := map[string]interface{}{"scenario": "leader-loss", "seed": seed, "servers": 3, "pref": prefNames[pref], "revive": revive}
			done := make(chan struct{})
			var steps []string
			go func() {
				defer close(done)
				c, err := client.NewHTTPClient(client.SetHttpClient(&http.Client{Timeout: 2 * time.Second}),
					client.SetURLs(s.servers[0].URL, s.servers[1].URL, s.servers[2].URL), client.SetReadPreference(client.ReadPref(pref)),
					client.SetTopologyDiscovery(true), client.SetAttemptToReviveEndpoints(revive), client.SetHealthChecks(false), client.SetMaxRetries(0), client.SetAPIKey("k"), client.SetHasherFunction(hashing.NewSha256Hasher))
				if err != nil {
					out.Violate("C20:no-convergence-on-leader:start", fmt.Sprintf("client start-up with three healthy nodes failed: %v", err), desc)
					return
				}
				if _, err := c.Add("x"); err != nil {
					out.Violate("C20:no-convergence-on-leader:healthy", fmt.Sprintf("a write to a healthy 3-node cluster failed: %v", err), desc)
				}
				s.mu.Lock()
				s.mode[0] = "down"
				s.leader = 1
				s.mu.Unlock()
				var lastW, lastR error
				for k := 0; k < 4; k++ {
					s.mu.Lock()
					before := len(s.log)
					s.mu.Unlock()
					_, lastW = c.Add("y")
					_, lastR = c.Incremental(0, 0)
					s.mu.Lock()
					steps = append(steps, fmt.Sprintf("round %d after the leader died: write err=%v read err=%v reqs=%v", k, lastW, lastR, s.log[before:]))
					s.mu.Unlock()
				}
				desc["steps"] = steps
				if lastW != nil {
					out.Violate("C20:no-convergence-on-leader:leader-lost", fmt.Sprintf("node 0 (the leader) stopped answering and node 1 was elected; with discovery on and read preference %s the 4th write afterwards still fails: %v", prefNames[pref], lastW), desc)
				}
				if lastR != nil {
					out.Violate("C20:no-convergence-on-leader:reads-after-leader-lost", fmt.Sprintf("node 0 (the leader) stopped answering and node 1 was elected; with discovery on and read preference %s the 4th read afterwards still fails: %v", prefNames[pref], lastR), desc)
				}
				c.Close()
			}()
			select {
			case <-done:
			case <-time.After(60 * time.Second):
				desc["steps"] = steps
				out.Violate("C20:call-does-not-terminate", "a client call did not return within 60 s after the leader was lost although every request is answered or refused immediately", desc)
			}
			out.Count("leader_loss_scenarios", 1)
			out.Case(fmt.Sprintf("leaderloss:%d:%v", pref, revive), true)
			s.close()
		}
	}
}

// retryBudget: with MaxRetries = k every endpoint is tried at most k+1 times per call, and the call returns.
func retryBudget(out *cq.Out, seed uint64) {
	for k := 0; k <= 3; k++ {
		for _, mode := range []string{"500", "down", "recovers"} {
			s := newScripted(1)
			s.mode[0] = mode
			if mode == "recovers" {
				s.mode[0] = "500"
			}
			desc := map[string]interface{}{"scenario": "retry-budget", "seed": seed, "max_retries": k, "server": mode}
			done := make(chan struct{})
			var reqs []string
			var cerr error
			go func() {
				defer close(done)
				c, err := client.NewHTTPClient(client.SetHttpClient(&http.Client{Timeout: 2 * time.Second}), client.SetURLs(s.servers[0].URL),
					client.SetReadPreference(client.Any), client.SetTopologyDiscovery(false), client.SetHealthChecks(false), client.SetMaxRetries(k), client.SetAPIKey("k"), client.SetHasherFunction(hashing.NewSha256Hasher))
				if err != nil {
					return
				}
				if mode == "recovers" && k > 0 {
					go func() { time.Sleep(50 * time.Millisecond); s.mu.Lock(); s.mode[0] = "ok"; s.mu.Unlock() }()
				}
				_, cerr = c.Incremental(0, 0)
				s.mu.Lock()
				reqs = append([]string{}, s.log...)
				s.mu.Unlock()
				c.Close()
			}()
			select {
			case <-done:
				if len(reqs) > k+1 {
					out.Violate("C20:more-attempts-than-configured", fmt.Sprintf("with MaxRetries=%d one read against a single node that answers %s issued %d requests (at most %d attempts are configured)", k, mode, len(reqs), k+1), desc)
				}
				if mode == "recovers" && k > 0 && cerr != nil {
					out.Violate("C20:retries-not-used", fmt.Sprintf("with MaxRetries=%d a node that fails once and then answers makes the call fail after %d request(s): %v", k, len(reqs), cerr), desc)
				}
			case <-time.After(30 * time.Second):
				out.Violate("C20:call-does-not-terminate", fmt.Sprintf("with MaxRetries=%d a read against a single node answering %s did not return within 30 s", k, mode), desc)
			}
			out.Case(fmt.Sprintf("retry:%d:%s", k, mode), k > 0)
			out.Count("retry_budget_scenarios", 1)
			s.close()
		}
	}
}

// sharedSelector: one client is shared by the goroutines of an application; the selection is one state machine, so
// the number of times each permitted endpoint is chosen by N concurrent callers is exactly what N sequential callers
// would get (fair cycling), and no selection fails or panics.
func sharedSelector(out *cq.Out, seed uint64, tier string) {
	per := 30000
	if tier == "thorough" {
		per = 300000
	}
	for _, pref := range []int{int(client.Any), int(client.Secondary)} {
		t := client.NewVTopology(false)
		t.Update("u1", "u2", "u3")
		G := 12
		counts := make([]map[string]int, G)
		var wg sync.WaitGroup
		panics := make(chan string, G)
		misses := make(chan int, G)
		for g := 0; g < G; g++ {
			wg.Add(1)
			counts[g] = map[string]int{}
			go func(g int) {
				defer wg.Done()
				miss := 0
				if p, msg := cq.Catch(func() {
					for i := 0; i < per; i++ {
						e, ok := t.NextRead(client.ReadPref(pref))
						if !ok {
							miss++
							continue
						}
						counts[g][e.URL]++
					}
				}); p {
					panics <- msg
				}
				misses <- miss
			}(g)
		}
		wg.Wait()
		close(panics)
		close(misses)
		total := map[string]int{}
		for _, c := range counts {
			for u, k := range c {
				total[u] += k
			}
		}
		desc := map[string]interface{}{"scenario": "shared-selector", "seed": seed, "pref": prefNames[pref], "goroutines": G, "selections_each": per, "counts": total}
		for msg := range panics {
			out.Violate("C20:selection-panics-under-concurrent-use", fmt.Sprintf("NextReadEndpoint(%s) panicked while %d goroutines select on one topology: %.150s", prefNames[pref], G, msg), desc)
		}
		nm := 0
		for m := range misses {
			nm += m
		}
		if nm > 0 {
			out.Violate("C20:no-endpoint-although-live", fmt.Sprintf("%d of %d concurrent selections with preference %s returned no endpoint although live permitted ones exist", nm, G*per, prefNames[pref]), desc)
		}
		permitted := []string{"u1", "u2", "u3"}
		if pref == int(client.Secondary) {
			permitted = []string{"u2", "u3"}
		}
		want := G * per / len(permitted)
		for _, u := range permitted {
			if d := total[u] - want; d > 1 || d < -1 {
				out.Violate("C20:unfair-cycling-under-concurrent-use", fmt.Sprintf("%d concurrent selections with preference %s chose %v; fair cycling gives each permitted endpoint %d (+-1)", G*per, prefNames[pref], total, want), desc)
				break
			}
		}
		out.Case(fmt.Sprintf("shared-selector:%d", pref), true)
		out.Count("shared_selector_selections", G*per)
	}
}

func clientScenarios(out *cq.Out, rng *cq.Rng, seed uint64, tier string) {
	leaderLoss(out, seed)
	retryBudget(out, seed)
	sharedSelector(out, seed, tier)
	n := 12
	if tier == "thorough" {
		n = 60
	}
	modes := []string{"ok", "ok", "ok", "500", "404", "down"}
	for sc := 0; sc < n; sc++ {
		ns := 2 + rng.Intn(3)
		s := newScripted(ns)
		s.leader = rng.Intn(ns)
		discovery := rng.Intn(2) == 0
		revive := rng.Intn(2) == 0
		pref := rng.Intn(5)
		if sc == 0 { // every node refuses with a 4xx (e.g. wrong API key) while discovery is on
			discovery = true
			for i := range s.mode {
				s.mode[i] = "404"
			}
		}
		believed := rng.Intn(ns) // the node the client is told is primary
		var secs []string
		for i := 0; i < ns; i++ {
			if i != believed {
				secs = append(secs, s.servers[i].URL)
			}
		}
		desc := map[string]interface{}{"scenario": sc, "seed": seed, "servers": ns, "leader": s.leader, "believed": believed, "discovery": discovery, "revive": revive, "pref": prefNames[pref]}
		var c *client.HTTPClient
		done := make(chan struct{})
		var steps []string
		go func() {
			defer close(done)
			var err error
			c, err = client.NewHTTPClient(client.SetHttpClient(&http.Client{Timeout: 2 * time.Second}),
				client.SetURLs(s.servers[believed].URL, secs...), client.SetReadPreference(client.ReadPref(pref)),
				client.SetTopologyDiscovery(discovery), client.SetAttemptToReviveEndpoints(revive), client.SetHealthChecks(false), client.SetMaxRetries(0), client.SetAPIKey("k"), client.SetHasherFunction(hashing.NewSha256Hasher))
			if err != nil {
				return
			}
			for k := 0; k < 6; k++ {
				// change the world
				s.mu.Lock()
				switch rng.Intn(4) {
				case 0:
					s.mode[rng.Intn(ns)] = modes[rng.Intn(len(modes))]
				case 1:
					s.leader = rng.Intn(ns)
				}
				world := fmt.Sprintf("leader=%d modes=%v", s.leader, s.mode)
				before := len(s.log)
				leader := s.leader
				s.mu.Unlock()
				write := rng.Intn(2) == 0
				var cerr error
				if write {
					_, cerr = c.Add("x")
				} else {
					_, cerr = c.Incremental(0, 0)
				}
				s.mu.Lock()
				reqs := append([]string{}, s.log[before:]...)
				s.mu.Unlock()
				steps = append(steps, fmt.Sprintf("%s write=%v err=%v reqs=%v", world, write, cerr != nil, reqs))
				out.Case(fmt.Sprintf("call:%d:%d", sc, k), len(reqs) > 1)
				desc["steps"] = steps
				// oracle: bounded number of requests per call
				if len(reqs) > 3*ns+3 {
					out.Violate("C20:unbounded-attempts", fmt.Sprintf("one client call issued %d requests to %d nodes", len(reqs), ns), desc)
				}
				// oracle: a successful write ended at the real leader
				if write && cerr == nil {
					lastPost := ""
					for _, r := range reqs {
						if strings.Contains(r, "POST /events") {
							lastPost = r
						}
					}
					if !strings.HasPrefix(lastPost, fmt.Sprintf("%d:", leader)) {
						out.Violate("C20:write-not-at-leader", fmt.Sprintf("a write was acknowledged by node %s although node %d is the leader", lastPost, leader), desc)
					}
				}
			}
			// convergence: every node healthy again; with discovery the client must find the leader within a few writes
			s.mu.Lock()
			for i := range s.mode {
				s.mode[i] = "ok"
			}
			leader := s.leader
			s.mu.Unlock()
			if discovery && revive {
				var last error
				for k := 0; k < 4; k++ {
					s.mu.Lock()
					before := len(s.log)
					s.mu.Unlock()
					_, last = c.Add("y")
					s.mu.Lock()
					steps = append(steps, fmt.Sprintf("convergence write %d: err=%v reqs=%v", k, last != nil, s.log[before:]))
					s.mu.Unlock()
				}
				if last != nil {
					desc["steps"] = steps
					out.Violate("C20:no-convergence-on-leader", fmt.Sprintf("all nodes healthy, leader is node %d, discovery and endpoint revival enabled, yet the 4th consecutive write still fails: %v", leader, last), desc)
				}
			}
		}()
		select {
		case <-done:
		case <-time.After(40 * time.Second):
			desc["steps"] = steps
			out.Violate("C20:call-does-not-terminate", "a client call (or client start-up with discovery) did not return within 40 s although every request is answered or refused immediately", desc)
		}
		out.Count("client_scenarios", 1)
		s.close()
	}
}
