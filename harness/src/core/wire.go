package main

import (
	"bytes"
	"encoding/json"
	"fmt"
	"net/http"
	"net/http/httptest"
	"os"
	"reflect"
	"strings"
	"time"

	"github.com/bbva/qed/balloon"
	"github.com/bbva/qed/balloon/history"
	"github.com/bbva/qed/client"
	"github.com/bbva/qed/crypto/hashing"
	"github.com/bbva/qed/gossip"
	"github.com/bbva/qed/protocol"
	"qedverif/cq"
)

// ---- C13: wire formats preserve proofs, snapshots and messages

func jsonRound(in interface{}, out interface{}) error {
	b, err := json.Marshal(in)
	if err != nil {
		return err
	}
	return json.Unmarshal(b, out)
}

func objVerify(p *balloon.MembershipProof, d, hist, hyper []byte) int {
	var ok bool
	panicked, _ := cq.Catch(func() { ok = p.DigestVerify(d, &balloon.Snapshot{HistoryDigest: hist, HyperDigest: hyper}) })
	if panicked {
		return 2
	}
	if ok {
		return 0
	}
	return 1
}

func wireCmd(out *cq.Out, seed uint64, tier string) {
	rng := cq.NewRng(seed)
	sizes := []int{1, 2, 5, 12, 30}
	if tier == "thorough" {
		sizes = append(sizes, 64, 65, 100)
	}
	var cases []string
	for ci, n := range sizes {
		r := newBRun()
		var steps []string
		for len(r.events) < n {
			k := 1 + rng.Intn(4)
			var evs [][]byte
			for i := 0; i < k; i++ {
				evs = append(evs, genEvent(rng, r, out))
			}
			snaps := r.add(evs, false)
			if addFailed(out, r, map[string]interface{}{"case": ci, "seed": seed}) {
				break
			}
			var evl []string
			for _, e := range evs {
				evl = append(evl, cq.Bytes(e))
			}
			steps = append(steps, fmt.Sprintf("SAdd %s %s", cq.List(evl), cq.Bytes(snapFP(snaps))))
		}
		cur := uint64(len(r.events) - 1)
		// ---- membership answers: every event, query versions incl. beyond the current one
		for ei := range r.events {
			d := r.events[ei]
			rep := r.last[string(d)]
			for _, q := range []uint64{rep, rep + uint64(rng.Intn(int(cur-rep)+1)), cur, cur + 1 + uint64(rng.Intn(3))} {
				qq := q
				o := r.query(d, &qq)
				if o.class != 0 {
					continue
				}
				// 1. JSON round trip of the public form preserves every field
				mr := protocol.ToMembershipResult(d, o.proof)
				var mr2 protocol.MembershipResult
				if err := jsonRound(mr, &mr2); err != nil {
					out.Violate("C13:json-error", err.Error(), map[string]interface{}{"case": ci, "seed": seed})
					continue
				}
				same := mr.Exists == mr2.Exists && mr.CurrentVersion == mr2.CurrentVersion && mr.QueryVersion == mr2.QueryVersion && mr.ActualVersion == mr2.ActualVersion &&
					bytes.Equal(mr.KeyDigest, mr2.KeyDigest) && bytes.Equal(mr.Key, mr2.Key) && bytes.Equal(hyperFP(mr.Hyper), hyperFP(mr2.Hyper)) && bytes.Equal(histFP(mr.History), histFP(mr2.History))
				if !same {
					out.Violate("C13:membership-fields", fmt.Sprintf("a membership answer changed across JSON encode/decode (event %d, version %d)", ei, q), map[string]interface{}{"case": ci, "seed": seed, "event": ei, "q": q})
				}
				// 2. the decoded proof gives the same verdict as the original object, for right and wrong digests/snapshots
				bp := protocol.ToBalloonProof(&mr2, hashing.NewSha256Hasher)
				hv := q
				if hv > cur {
					hv = cur
				}
				trials := [][3][]byte{
					{d, r.snaps[hv].HistoryDigest, r.snaps[cur].HyperDigest},
					{r.events[rng.Intn(len(r.events))], r.snaps[hv].HistoryDigest, r.snaps[cur].HyperDigest},
					{d, r.snaps[rng.Intn(len(r.snaps))].HistoryDigest, r.snaps[cur].HyperDigest},
					{d, r.snaps[hv].HistoryDigest, r.snaps[rng.Intn(len(r.snaps))].HyperDigest},
				}
				for ti, tr := range trials {
					v1 := objVerify(o.proof, tr[0], tr[1], tr[2])
					v2 := objVerify(bp, tr[0], tr[1], tr[2])
					out.Case(fmt.Sprintf("memb:%d:%d:%d:%d", ci, ei, q, ti), o.exists)
					if v1 != v2 {
						sig := "C13:membership-verdict"
						if q > cur {
							sig = "C13:membership-verdict:query-beyond-current"
						}
						out.Violate(sig, fmt.Sprintf("the decoded membership proof gives verdict %d where the original gives %d (event %d, query version %d, current %d, trial %d)", v2, v1, ei, q, cur, ti),
							map[string]interface{}{"case": ci, "seed": seed, "event": ei, "q": q, "current": cur, "trial": ti})
					}
				}
			}
		}
		// ---- incremental answers
		for t := 0; t < 3*n; t++ {
			e := uint64(rng.Intn(n))
			s := uint64(rng.Intn(int(e) + 1))
			ip, err := r.b.QueryConsistency(s, e)
			if err != nil {
				continue
			}
			ir := protocol.ToIncrementalResponse(ip)
			var ir2 protocol.IncrementalResponse
			if err := jsonRound(ir, &ir2); err != nil {
				out.Violate("C13:json-error", err.Error(), nil)
				continue
			}
			ip2 := protocol.ToIncrementalProof(&ir2, hashing.NewSha256Hasher)
			if ip2.Start != ip.Start || ip2.End != ip.End || !bytes.Equal(histFP(ip2.AuditPath.Serialize()), histFP(ip.AuditPath.Serialize())) {
				out.Violate("C13:incremental-fields", fmt.Sprintf("incremental answer (%d,%d) changed across the wire", s, e), map[string]interface{}{"case": ci, "seed": seed, "s": s, "e": e})
			}
			for _, pair := range [][2]uint64{{s, e}, {e, s}, {uint64(rng.Intn(n)), e}} {
				v1 := ip.Verify(r.snaps[pair[0]], r.snaps[pair[1]])
				v2 := ip2.Verify(r.snaps[pair[0]], r.snaps[pair[1]])
				out.Case(fmt.Sprintf("incr:%d:%d:%d:%d", ci, s, e, pair[0]), len(ip.AuditPath) > 1)
				if v1 != v2 {
					out.Violate("C13:incremental-verdict", fmt.Sprintf("decoded incremental proof (%d,%d) verdict %v, original %v", s, e, v2, v1), map[string]interface{}{"case": ci, "seed": seed, "s": s, "e": e})
				}
			}
		}
		// ---- snapshots and signed batches
		var batch protocol.BatchSnapshots
		for _, s := range r.snaps {
			ps := &protocol.Snapshot{EventDigest: s.EventDigest, HistoryDigest: s.HistoryDigest, HyperDigest: s.HyperDigest, Version: s.Version}
			var ps2 protocol.Snapshot
			enc, _ := ps.Encode()
			if err := ps2.Decode(enc); err != nil || !reflect.DeepEqual(*ps, ps2) {
				out.Violate("C13:snapshot-fields", "a snapshot changed across Encode/Decode", map[string]interface{}{"case": ci, "seed": seed, "version": s.Version})
			}
			batch.Snapshots = append(batch.Snapshots, &protocol.SignedSnapshot{Snapshot: ps, Signature: rng.Bytes(64)})
		}
		benc, _ := batch.Encode()
		var batch2 protocol.BatchSnapshots
		if err := batch2.Decode(benc); err != nil || !reflect.DeepEqual(batch, batch2) {
			out.Violate("C13:batch-fields", "a signed snapshot batch changed across Encode/Decode", map[string]interface{}{"case": ci, "seed": seed})
		}
		// ---- gossip messages (binary): several messages encoded before any is decoded
		var encs [][]byte
		var msgs []*gossip.Message
		for k := 0; k < 4; k++ {
			m := &gossip.Message{Kind: gossip.BatchMessageType, From: &gossip.Peer{Name: fmt.Sprintf("p%d", k), Port: uint16(9000 + k), Meta: gossip.Meta{Role: "auditor"}}, TTL: k + rng.Intn(4), Payload: benc[:rng.Intn(len(benc)+1)]}
			e, err := m.Encode()
			if err != nil {
				out.Violate("C13:message-encode-error", err.Error(), nil)
			}
			msgs = append(msgs, m)
			encs = append(encs, e)
		}
		for k, e := range encs {
			var m2 gossip.Message
			if err := m2.Decode(e); err != nil || m2.Kind != msgs[k].Kind || m2.TTL != msgs[k].TTL || !bytes.Equal(m2.Payload, msgs[k].Payload) ||
				m2.From == nil || m2.From.Name != msgs[k].From.Name || m2.From.Port != msgs[k].From.Port || m2.From.Meta.Role != msgs[k].From.Meta.Role {
				out.Violate("C13:message-fields", fmt.Sprintf("gossip message %d changed across Encode/Decode", k), map[string]interface{}{"case": ci, "seed": seed})
			}
			out.Case(fmt.Sprintf("msg:%d:%d", ci, k), len(msgs[k].Payload) > 0)
		}
		cases = append(cases, cq.List(steps))
		out.Sample(map[string]interface{}{"case": ci, "events": n})
		r.close()
	}
	// ---- audit-path keys: Serialize / ParseAuditPath on synthetic positions up to 2^63-1
	var keyCases []string
	for t := 0; t < 400; t++ {
		var idx uint64
		switch rng.Intn(6) {
		case 0:
			idx = (1 << 63) - 1 - uint64(rng.Intn(3))
		case 1:
			idx = 1 << uint(rng.Intn(63))
		case 2:
			idx = (1 << 32) + uint64(rng.Intn(1000))
		default:
			idx = rng.U64() >> uint(1+rng.Intn(62))
		}
		h := uint16(rng.Intn(65))
		var key [10]byte
		copy(key[:8], []byte{byte(idx >> 56), byte(idx >> 48), byte(idx >> 40), byte(idx >> 32), byte(idx >> 24), byte(idx >> 16), byte(idx >> 8), byte(idx)})
		key[8], key[9] = byte(h>>8), byte(h)
		ap := history.AuditPath{key: hashing.Digest{byte(t)}}
		ser := ap.Serialize()
		back := history.ParseAuditPath(ser)
		out.Case(fmt.Sprintf("key:%d:%d", idx, h), idx >= 1<<32)
		if _, ok := back[key]; !ok || len(back) != 1 {
			out.Violate("C13:auditpath-key", fmt.Sprintf("audit-path position (%d,%d) does not survive Serialize/ParseAuditPath", idx, h), map[string]interface{}{"index": idx, "height": h})
		}
		for s := range ser {
			keyCases = append(keyCases, fmt.Sprintf("(%s, %d%%nat, \"%s\"%%string)", cq.N(idx), h, s))
		}
	}
	f, _ := os.Create(out.Dir + "/cases.v")
	fmt.Fprintf(f, "From Coq Require Import List NArith Uint63 String.\nFrom QV Require Import Run.HistRun Run.BalloonRun Wire.Wire.\nImport ListNotations.\nOpen Scope uint63_scope.\n")
	fmt.Fprintf(f, "Definition cases : list (list step) := %s.\n", cq.List(cases))
	fmt.Fprintf(f, "Definition keys : list (N * nat * string) := %s.\n", cq.List(keyCases))
	fmt.Fprintf(f, "Definition RK := Eval vm_compute in filter (fun x => orb (negb (String.eqb (key_string (fst (fst x), snd (fst x))) (snd x))) (match parse_key (snd x) with Some (i, h) => negb (andb (N.eqb i (fst (fst x))) (Nat.eqb h (snd (fst x)))) | None => true end)) keys.\n")
	fmt.Fprintf(f, "Definition R := Eval vm_compute in (run_balloon_cases cases, map (fun x => fst (fst x)) RK).\nPrint R.\n")
	f.Close()
	_ = strings.Join
	_ = time.Second
	_ = http.StatusOK
	_ = httptest.NewServer
	_ = client.Primary
}
