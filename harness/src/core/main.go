// qedh-core: harness commands over the packages of BBVA/QED that need no RocksDB.
package main

import (
	"flag"
	"fmt"
	"os"

	"qedverif/cq"
)

func main() {
	cmd := os.Args[1]
	fs := flag.NewFlagSet(cmd, flag.ExitOnError)
	seed := fs.Uint64("seed", 1, "")
	tier := fs.String("tier", "quick", "")
	dir := fs.String("out", ".", "")
	replay := fs.String("replay", "", "")
	fs.Parse(os.Args[2:])
	_ = replay
	out := cq.NewOut(*dir)
	switch cmd {
	case "hist":
		histCmd(out, *seed, *tier)
	case "balloon":
		balloonCmd(out, *seed, *tier)
	case "canon":
		canonCmd(out, *seed, *tier)
	case "topo":
		topoCmd(out, *seed, *tier)
	case "store":
		storeCmd(out, *seed, *tier)
	case "wire":
		wireCmd(out, *seed, *tier)
	case "hostile":
		hostileCmd(out, *seed, *tier)
	case "gossip":
		gossipCmd(out, *seed, *tier)
	case "hyperb":
		hyperbCmd(out, *seed, *tier)
	case "clientv":
		clientvCmd(out, *seed, *tier)
	case "canonlarge":
		canonLargeCmd(out, *seed, *tier)
	default:
		fmt.Fprintln(os.Stderr, "unknown command", cmd)
		os.Exit(2)
	}
	out.Write()
}
