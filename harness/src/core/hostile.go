package main

import (
	"encoding/base64"
	"encoding/json"
	"fmt"
	"net/http"
	"net/http/httptest"
	"os"
	"sort"
	"strings"
	"time"

	"github.com/bbva/qed/balloon"
	"github.com/bbva/qed/client"
	"github.com/bbva/qed/crypto/hashing"
	"github.com/bbva/qed/protocol"
	"qedverif/cq"
)

// ---- C12: the client verifier is total

// guarded runs f with panic capture and a watchdog. class: "ok", "panic", "hang".
func guarded(f func()) (class, site, msg string) {
	done := make(chan struct{})
	var p bool
	go func() {
		defer close(done)
		p, site, msg = cq.CatchSite(f)
	}()
	select {
	case <-done:
		if p {
			return "panic", site, msg
		}
		return "ok", "", ""
	case <-time.After(5 * time.Second):
		return "hang", "watchdog", "no result within 5 s"
	}
}

func b64(n int, rng *cq.Rng) string { return base64.StdEncoding.EncodeToString(rng.Bytes(n)) }

var hostileKeys = []string{"", "|", "1", "a|b", "1|2|3", "-1|0", "1|-1", "18446744073709551616|0", "99999999999999999999999|1", "0|70000", " 1|2", "1| 2", "0x10|1", "1.5|2", "|5", "5|", "0|0|", "\u0000|1"}

// mutateJSON applies one random structural mutation to a decoded JSON object.
func mutateJSON(rng *cq.Rng, obj map[string]interface{}, pathFields []string) string {
	fields := make([]string, 0, len(obj))
	for k := range obj {
		fields = append(fields, k)
	}
	sort.Strings(fields)
	junk := []interface{}{nil, "x", 1.5, -1.0, 1e30, true, []interface{}{}, []interface{}{1.0}, map[string]interface{}{}, map[string]interface{}{"a": nil}, "", 18446744073709551615.0}
	switch rng.Intn(9) {
	case 0:
		f := fields[rng.Intn(len(fields))]
		delete(obj, f)
		return "delete " + f
	case 1:
		f := fields[rng.Intn(len(fields))]
		obj[f] = junk[rng.Intn(len(junk))]
		return "junk " + f
	case 2, 3, 4: // audit path surgery
		f := pathFields[rng.Intn(len(pathFields))]
		m, ok := obj[f].(map[string]interface{})
		if !ok || m == nil {
			m = map[string]interface{}{}
			obj[f] = m
		}
		keys := make([]string, 0, len(m))
		for k := range m {
			keys = append(keys, k)
		}
		sort.Strings(keys)
		switch rng.Intn(5) {
		case 0:
			if len(keys) > 0 {
				delete(m, keys[rng.Intn(len(keys))])
			}
			return "drop entry of " + f
		case 1:
			m[hostileKeys[rng.Intn(len(hostileKeys))]] = b64(32, rng)
			return "add hostile key to " + f
		case 2:
			if len(keys) > 0 {
				k := keys[rng.Intn(len(keys))]
				v := m[k]
				delete(m, k)
				m[hostileKeys[rng.Intn(len(hostileKeys))]] = v
			}
			return "rename entry of " + f
		case 3:
			if len(keys) > 0 {
				m[keys[rng.Intn(len(keys))]] = b64([]int{0, 1, 31, 33, 64, 70}[rng.Intn(6)], rng)
			}
			return "resize entry of " + f
		default:
			for i := 0; i < 300; i++ {
				m[fmt.Sprintf("%d|%d", rng.Intn(1000), rng.Intn(64))] = b64(32, rng)
				m[fmt.Sprintf("0x%064x|%d", i, rng.Intn(256))] = b64(32, rng)
			}
			return "600 extra entries in " + f
		}
	case 5: // versions
		for _, f := range []string{"CurrentVersion", "QueryVersion", "ActualVersion", "Start", "End"} {
			if _, ok := obj[f]; ok && rng.Intn(2) == 0 {
				obj[f] = []interface{}{0.0, 1.0, 9223372036854775807.0, 18446744073709551615.0, float64(rng.Intn(100))}[rng.Intn(5)]
			}
		}
		return "versions"
	case 6:
		for _, f := range []string{"KeyDigest", "Key"} {
			if _, ok := obj[f]; ok {
				obj[f] = b64([]int{0, 1, 31, 33, 64, 70}[rng.Intn(6)], rng)
			}
		}
		return "digest length"
	case 7:
		if _, ok := obj["Exists"]; ok {
			obj["Exists"] = rng.Intn(2) == 0
		}
		return "exists"
	default:
		for _, f := range pathFields {
			obj[f] = nil
		}
		return "null paths"
	}
}

func hostileCmd(out *cq.Out, seed uint64, tier string) {
	rng := cq.NewRng(seed)
	r := newBRun()
	n := 20
	for len(r.events) < n {
		r.add([][]byte{genEvent(rng, r, out)}, true)
	}
	cur := uint64(n - 1)
	rounds := 1500
	if tier == "thorough" {
		rounds = 12000
	}
	report := func(kind, class, site, msg, how string, body []byte) {
		sig := fmt.Sprintf("C12:%s:%s", class, site)
		out.Violate(sig, fmt.Sprintf("%s on a hostile %s answer (%s): %.200s", class, kind, how, msg), map[string]interface{}{"seed": seed, "kind": kind, "mutation": how, "body": string(body)})
	}
	for t := 0; t < rounds; t++ {
		ei := rng.Intn(n)
		d := r.events[ei]
		rep := r.last[string(d)]
		q := rep + uint64(rng.Intn(int(cur-rep)+1))
		if rng.Intn(2) == 0 { // ---- membership
			o := r.query(d, &q)
			if o.class != 0 {
				continue
			}
			genuine, _ := json.Marshal(protocol.ToMembershipResult(d, o.proof))
			var body []byte
			var how string
			if rng.Intn(4) == 0 { // byte-level garbling
				body = append([]byte{}, genuine...)
				for k := 0; k < 1+rng.Intn(4); k++ {
					i := rng.Intn(len(body))
					switch rng.Intn(3) {
					case 0:
						body[i] = byte(rng.Intn(256))
					case 1:
						body = append(body[:i], body[i+1:]...)
					default:
						body = body[:i]
					}
					if len(body) == 0 {
						break
					}
				}
				how = "garbled bytes"
			} else {
				var obj map[string]interface{}
				json.Unmarshal(genuine, &obj)
				var hows []string
				for k := 0; k < 1+rng.Intn(3); k++ {
					hows = append(hows, mutateJSON(rng, obj, []string{"Hyper", "History"}))
				}
				how = strings.Join(hows, "; ")
				body, _ = json.Marshal(obj)
			}
			out.Count("membership_answers", 1)
			os.WriteFile(out.Dir+"/current_input.json", body, 0644)
			var verdict, decoded bool
			var mr *protocol.MembershipResult
			class, site, msg := guarded(func() {
				if err := json.Unmarshal(body, &mr); err != nil || mr == nil {
					return
				}
				decoded = true
				bp := protocol.ToBalloonProof(mr, hashing.NewSha256Hasher)
				verdict = bp.DigestVerify(d, &balloon.Snapshot{HistoryDigest: r.snaps[q].HistoryDigest, HyperDigest: r.snaps[cur].HyperDigest})
			})
			out.Case(fmt.Sprintf("m:%d", t), decoded)
			if class != "ok" {
				report("membership", class, site, msg, how, body)
			} else if verdict && !(mr.Exists && mr.ActualVersion <= mr.QueryVersion && mr.ActualVersion < uint64(n) && string(r.events[mr.ActualVersion]) == string(d)) {
				out.Violate("C02:false-claim:hostile-json", "a hostile membership answer with a false claim was accepted: "+how, map[string]interface{}{"seed": seed, "body": string(body)})
			}
			if decoded {
				out.Count("membership_decoded", 1)
			}
			if verdict {
				out.Count("membership_accepted", 1)
			}
		} else { // ---- incremental
			e := uint64(rng.Intn(n))
			s := uint64(rng.Intn(int(e) + 1))
			ip, err := r.b.QueryConsistency(s, e)
			if err != nil {
				continue
			}
			genuine, _ := json.Marshal(protocol.ToIncrementalResponse(ip))
			var obj map[string]interface{}
			json.Unmarshal(genuine, &obj)
			var hows []string
			for k := 0; k < 1+rng.Intn(3); k++ {
				hows = append(hows, mutateJSON(rng, obj, []string{"AuditPath"}))
			}
			how := strings.Join(hows, "; ")
			body, _ := json.Marshal(obj)
			out.Count("incremental_answers", 1)
			os.WriteFile(out.Dir+"/current_input.json", body, 0644)
			var decoded bool
			class, site, msg := guarded(func() {
				var ir *protocol.IncrementalResponse
				if err := json.Unmarshal(body, &ir); err != nil || ir == nil {
					return
				}
				decoded = true
				p := protocol.ToIncrementalProof(ir, hashing.NewSha256Hasher)
				p.Verify(r.snaps[s], r.snaps[e])
			})
			out.Case(fmt.Sprintf("i:%d", t), decoded)
			if class != "ok" {
				report("incremental", class, site, msg, how, body)
			}
		}
	}
	// ---- the HTTP client against a server that answers garbage
	bodies := []string{"null", "{}", "[]", "\"x\"", "", "{", "{\"Hyper\":null,\"History\":null}", "{\"Snapshot\":null}", "{\"Snapshot\":{}}", "{\"AuditPath\":{\"x\":\"AA==\"}}",
		"{\"Exists\":true,\"Hyper\":{\"a\":\"AA==\"},\"History\":{\"b\":\"AA==\"},\"QueryVersion\":3,\"ActualVersion\":1,\"CurrentVersion\":3}", "123", "true"}
	for bi, body := range bodies {
		b := body
		srv := httptest.NewServer(http.HandlerFunc(func(w http.ResponseWriter, rq *http.Request) { w.Write([]byte(b)) }))
		c, err := client.NewHTTPClient(client.SetHttpClient(&http.Client{Timeout: 2 * time.Second}), client.SetURLs(srv.URL), client.SetSnapshotStoreURL(srv.URL),
			client.SetReadPreference(client.Any), client.SetTopologyDiscovery(false), client.SetHealthChecks(false), client.SetMaxRetries(0), client.SetHasherFunction(hashing.NewSha256Hasher))
		if err == nil {
			v := uint64(1)
			calls := map[string]func(){
				"MembershipDigest":      func() { c.MembershipDigest(r.events[0], &v) },
				"Membership":            func() { c.Membership([]byte("k"), nil) },
				"MembershipAutoVerify":  func() { c.MembershipAutoVerify(r.events[0], &v) },
				"Incremental":           func() { c.Incremental(0, 1) },
				"IncrementalAutoVerify": func() { c.IncrementalAutoVerify(0, 1) },
				"GetSnapshot":           func() { c.GetSnapshot(1) },
			}
			names := make([]string, 0)
			for k := range calls {
				names = append(names, k)
			}
			sort.Strings(names)
			for _, name := range names {
				class, site, msg := guarded(calls[name])
				out.Case(fmt.Sprintf("client:%d:%s", bi, name), true)
				out.Count("client_calls", 1)
				if class != "ok" {
					out.Violate(fmt.Sprintf("C12:%s:client.%s", class, name), fmt.Sprintf("client.%s %s when the server answers %q (%s %.150s)", name, class, b, site, msg),
						map[string]interface{}{"seed": seed, "body": b, "call": name})
				}
			}
			c.Close()
		}
		srv.Close()
	}
	os.Remove(out.Dir + "/current_input.json")
	out.Sample(map[string]interface{}{"events": n, "rounds": rounds, "client_bodies": len(bodies)})
	r.close()
}
