#!/usr/bin/env python3
"""Build plumbing only: make the cgo RocksDB wrapper of a SCRATCH COPY of BBVA/QED link against the
system librocksdb 7.8.3.  Five mechanical edits, applied to whatever the files currently contain.
Usage: patch_rocksdb.py <scratch-qed-dir>"""
import re, sys, pathlib
root = pathlib.Path(sys.argv[1]) / "rocksdb"

def edit(name, fn):
    p = root / name
    s = p.read_text()
    t = fn(s)
    if t != s:
        p.write_text(t)

# 1. flags
def flags(s):
    s = re.sub(r"// #cgo CFLAGS:.*", "// #cgo CFLAGS: -I/usr/include", s)
    s = re.sub(r"// #cgo CXXFLAGS:.*", "// #cgo CXXFLAGS: -std=c++17 -O2 -I/usr/include", s)
    s = re.sub(r"// #cgo LDFLAGS: -L\$\{SRCDIR\}.*", "// #cgo LDFLAGS: -L/usr/lib/x86_64-linux-gnu", s)
    s = re.sub(r"// #cgo LDFLAGS: -ljemalloc\n", "", s)
    s = s.replace("-Wl,-unresolved_symbols=ignore-all ", "")
    return s
edit("flags.go", flags)

# 2. two C symbols that RocksDB 7.x now declares itself (different signature)
for f in list(root.glob("*.go")) + list(root.glob("*.h")) + list(root.glob("*.cpp")):
    s = f.read_text()
    t = s.replace("rocksdb_backup_engine_restore_db_from_backup", "qed_backup_engine_restore_db_from_backup") \
         .replace("rocksdb_backup_engine_delete_backup", "qed_backup_engine_delete_backup")
    if t != s:
        f.write_text(t)

# 3. header renamed upstream
edit("extended.cpp", lambda s: s.replace("rocksdb/utilities/backupable_db.h", "rocksdb/utilities/backup_engine.h"))

# 4. option removed upstream
edit("options_block_based_table.go", lambda s: s.replace(
    "\tC.rocksdb_block_based_options_set_hash_index_allow_collision(o.c, boolToUchar(value))\n", "\t_ = value\n"))

# 5. int -> double
edit("filter_policy.go", lambda s: s.replace("C.int(bitsPerKey)", "C.double(bitsPerKey)"))
