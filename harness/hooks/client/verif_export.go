//go:build verif

// Export-only hook for the verification harness (add-only, no behaviour).
package client

// VTopology exposes the unexported endpoint-selection state machine.
type VTopology struct{ t *topology }

type VEndpoint struct {
	URL       string
	Secondary bool // nodeType == secondary
	Dead      bool
	ptr       *endpoint
}

func vinfo(e *endpoint) VEndpoint {
	if e == nil {
		return VEndpoint{}
	}
	return VEndpoint{URL: e.url, Secondary: e.nodeType == secondary, Dead: e.IsDead(), ptr: e}
}

func NewVTopology(attemptToRevive bool) *VTopology { return &VTopology{newTopology(attemptToRevive)} }

func (v *VTopology) Update(primary string, secondaries ...string) { v.t.Update(primary, secondaries...) }

// NextRead returns the chosen endpoint, ok=false on ErrNoEndpoint.
func (v *VTopology) NextRead(pref ReadPref) (VEndpoint, bool) {
	e, err := v.t.NextReadEndpoint(pref)
	if err != nil {
		return VEndpoint{}, false
	}
	return vinfo(e), true
}

// Primary: code 0 ok, 1 ErrNoPrimary, 2 ErrPrimaryDead.
func (v *VTopology) Primary() (VEndpoint, int) {
	e, err := v.t.Primary()
	switch err {
	case nil:
		return vinfo(e), 0
	case ErrNoPrimary:
		return VEndpoint{}, 1
	default:
		return vinfo(e), 2
	}
}

func (v *VTopology) Endpoints() []VEndpoint {
	var out []VEndpoint
	for _, e := range v.t.Endpoints() {
		out = append(out, vinfo(e))
	}
	return out
}

// Mark: kind 0 dead, 1 alive, 2 healthy.
func (e VEndpoint) Mark(kind int) {
	if e.ptr == nil {
		return
	}
	switch kind {
	case 0:
		e.ptr.MarkAsDead()
	case 1:
		e.ptr.MarkAsAlive()
	default:
		e.ptr.MarkAsHealthy()
	}
}

// Is reports object identity (the primary object may also be listed among the endpoints).
func (e VEndpoint) Is(o VEndpoint) bool { return e.ptr != nil && e.ptr == o.ptr }
