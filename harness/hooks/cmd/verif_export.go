//go:build verif

// Add-only export hook for the verification harness (never part of a normal build).
package cmd

import (
	"github.com/bbva/qed/gossip"
	"github.com/bbva/qed/log"
)

// The task factories of the three agents, exactly as runAgentAuditor / runAgentMonitor / runAgentPublisher build them.
func VMembershipFactory() gossip.TaskFactory  { return &membershipFactory{log: log.L().Named("verif.auditor")} }
func VIncrementalFactory() gossip.TaskFactory { return &incrementalFactory{log: log.L().Named("verif.monitor")} }
func VPublisherFactory() gossip.TaskFactory   { return &publisherFactory{log: log.L().Named("verif.publisher")} }

// VRunRestore runs the `qed restore` command body (runRestore) with the given parameters.
func VRunRestore(backupDir string, backupID uint32, restorePath string) error {
	params := restoreCtx.Value(k("restore.config")).(*RestoreConfig)
	params.BackupDir, params.BackupID, params.RestorePath = backupDir, backupID, restorePath
	return runRestore(restoreCmd, nil)
}
