//go:build verif

// Export-only hook for the verification harness (add-only, no behaviour).
package consensus

import (
	"github.com/bbva/qed/balloon"
	"github.com/bbva/qed/crypto/hashing"
	"github.com/bbva/qed/log"
	"github.com/bbva/qed/protocol"
	"github.com/bbva/qed/storage"
	"github.com/hashicorp/raft"
)

// ---- the raft log store (C15)
type VRaftLog struct{ l *raftLog }

func VOpenRaftLog(path string) (*VRaftLog, error) {
	l, err := newRaftLogOpts(raftLogOptions{Path: path, NoSync: true, EnableStatistics: true})
	if err != nil {
		return nil, err
	}
	return &VRaftLog{l}, nil
}
func (v *VRaftLog) Close() error                            { return v.l.Close() }
func (v *VRaftLog) FirstIndex() (uint64, error)             { return v.l.FirstIndex() }
func (v *VRaftLog) LastIndex() (uint64, error)              { return v.l.LastIndex() }
func (v *VRaftLog) GetLog(i uint64, out *raft.Log) error    { return v.l.GetLog(i, out) }
func (v *VRaftLog) StoreLog(l *raft.Log) error              { return v.l.StoreLog(l) }
func (v *VRaftLog) StoreLogs(ls []*raft.Log) error          { return v.l.StoreLogs(ls) }
func (v *VRaftLog) DeleteRange(min, max uint64) error       { return v.l.DeleteRange(min, max) }
func (v *VRaftLog) Set(k, val []byte) error                 { return v.l.Set(k, val) }
func (v *VRaftLog) Get(k []byte) ([]byte, error)            { return v.l.Get(k) }
func (v *VRaftLog) SetUint64(k []byte, x uint64) error      { return v.l.SetUint64(k, x) }
func (v *VRaftLog) GetUint64(k []byte) (uint64, error)      { return v.l.GetUint64(k) }
func VIsLogNotFound(err error) bool                         { return err == raft.ErrLogNotFound }
func VIsKeyNotFound(err error) bool                         { return err == ErrKeyNotFound }

// ---- a RaftNode's state machine without raft: Apply can be driven entry by entry (C05, C07, C08, C11)
func VNewFSM(store storage.ManagedStore, ch chan *protocol.Snapshot) (*RaftNode, error) {
	n := &RaftNode{db: store, snapshotsCh: ch, log: log.L(), hasherF: hashing.NewSha256Hasher, done: make(chan struct{}), info: &NodeInfo{NodeId: "fsm"}}
	b, err := balloon.NewBalloonWithLogger(store, n.hasherF, n.log)
	if err != nil {
		return nil, err
	}
	n.balloon = b
	if err := n.loadState(); err != nil {
		return nil, err
	}
	n.metrics = newRaftNodeMetrics(n)
	return n, nil
}

// VApply delivers one committed add command (already hashed events) with the given raft index.
// Returns the snapshots, or alreadyApplied.
func (n *RaftNode) VApply(index uint64, digests []hashing.Digest) (snaps []*balloon.Snapshot, alreadyApplied bool) {
	cmd := newCommand(addEventCommandType)
	cmd.encode(digests)
	r := n.Apply(&raft.Log{Index: index, Term: 1, Type: raft.LogCommand, Data: cmd.data})
	resp := r.(*fsmResponse)
	if resp.err != nil {
		return nil, true
	}
	return resp.val.([]*balloon.Snapshot), false
}

// VApplyT is VApply with the term of the entry given (raft logs carry non-decreasing terms; a restart or a
// leadership change starts a new one).
func (n *RaftNode) VApplyT(index, term uint64, digests []hashing.Digest) (snaps []*balloon.Snapshot, alreadyApplied bool) {
	cmd := newCommand(addEventCommandType)
	cmd.encode(digests)
	r := n.Apply(&raft.Log{Index: index, Term: term, Type: raft.LogCommand, Data: cmd.data})
	resp := r.(*fsmResponse)
	if resp.err != nil {
		return nil, true
	}
	return resp.val.([]*balloon.Snapshot), false
}

// VApplyErr is VApply with the state machine's error kept apart from "already applied".
func (n *RaftNode) VApplyErr(index uint64, digests []hashing.Digest) (snaps []*balloon.Snapshot, err error) {
	cmd := newCommand(addEventCommandType)
	cmd.encode(digests)
	r := n.Apply(&raft.Log{Index: index, Term: 1, Type: raft.LogCommand, Data: cmd.data})
	resp := r.(*fsmResponse)
	if resp.err != nil {
		return nil, resp.err
	}
	return resp.val.([]*balloon.Snapshot), nil
}

// VCommandRoundTrip encodes and decodes an add command.
func VCommandRoundTrip(digests []hashing.Digest) ([]hashing.Digest, error) {
	cmd := newCommand(addEventCommandType)
	if err := cmd.encode(digests); err != nil {
		return nil, err
	}
	c2 := newCommandFromRaft(cmd.data)
	var out []hashing.Digest
	err := c2.decode(&out)
	return out, err
}

func (n *RaftNode) VState() (index, balloonVersion uint64) { return n.state.Index, n.state.BalloonVersion }
func (n *RaftNode) VBalloonVersion() uint64                { return n.balloon.Version() }
func (n *RaftNode) VBalloon() *balloon.Balloon             { return n.balloon }
func (n *RaftNode) VStore() storage.ManagedStore           { return n.db }
func (n *RaftNode) VCloseFSM()                             { n.balloon.Close(); n.db.Close() }
func (n *RaftNode) VRaft() *raft.Raft                      { return n.raft }
func (n *RaftNode) VLeaveLeadership() error                { return n.leaveLeadership() }
func (n *RaftNode) VForceSnapshot() error                  { return n.raft.Snapshot().Error() }
func (n *RaftNode) VAppliedIndex() uint64                  { return n.raft.AppliedIndex() }

// ---- state transfer: the leader side of FetchSnapshot with an in-memory stream (C09)
type vStream struct {
	grpcServerStream
	buf []byte
}

func (s *vStream) Send(c *Chunk) error { s.buf = append(s.buf, c.Content...); return nil }

// VFetch runs RaftNode.FetchSnapshot for a requester that reports lastApplied and asks for the WAL range (start, end].
func (n *RaftNode) VFetch(lastApplied, start, end uint64) ([]byte, error) {
	st := &vStream{}
	err := n.FetchSnapshot(&FetchSnapshotRequest{LastAppliedVersion: lastApplied, StartSeqNum: start, EndSeqNum: end}, st)
	return st.buf, err
}

// VStateRoundTrip encodes and decodes the persisted FSM state (the value of the FSM state table entry).
func VStateRoundTrip(index, version uint64) (uint64, uint64, error) {
	st := &fsmState{Index: index, BalloonVersion: version}
	b, err := st.encode()
	if err != nil {
		return 0, 0, err
	}
	var out fsmState
	if err := out.decode(b); err != nil {
		return 0, 0, err
	}
	return out.Index, out.BalloonVersion, nil
}
