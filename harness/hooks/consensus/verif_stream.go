//go:build verif

package consensus

import (
	"context"

	"google.golang.org/grpc/metadata"
)

// grpcServerStream: the methods of grpc.ServerStream the in-memory stream never needs.
type grpcServerStream struct{}

func (grpcServerStream) SetHeader(metadata.MD) error  { return nil }
func (grpcServerStream) SendHeader(metadata.MD) error { return nil }
func (grpcServerStream) SetTrailer(metadata.MD)       {}
func (grpcServerStream) Context() context.Context     { return context.Background() }
func (grpcServerStream) SendMsg(m interface{}) error  { return nil }
func (grpcServerStream) RecvMsg(m interface{}) error  { return nil }
