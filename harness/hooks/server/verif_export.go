//go:build verif

// Export-only hook for the verification harness (add-only, no behaviour).
package server

import "github.com/bbva/qed/gossip"

// VAgent exposes the server's gossip agent (to observe what the sender publishes on its Out bus).
func (s *Server) VAgent() *gossip.Agent { return s.agent }
