//go:build verif

// Export-only hook for the verification harness (add-only, no behaviour).
package gossip

import (
	"net"
	"sort"
	"time"

	"github.com/hashicorp/memberlist"
	"github.com/bbva/qed/log"
	"github.com/bbva/qed/protocol"
)

func bareAgent(self *Peer, topo *Topology) *Agent {
	return &Agent{Self: self, topology: topo, log: log.L(), quitCh: make(chan bool), config: *DefaultConfig()}
}

// VRoute: the names Agent.route would send to.
func VRoute(self *Peer, topo *Topology, src *Peer) []string {
	var out []string
	for _, n := range bareAgent(self, topo).route(src) {
		out = append(out, n.Name)
	}
	return out
}

// VSendLocal runs Agent.Send on an agent that knows nobody (nothing reaches the transport) and returns the
// TTL the message is left with: unchanged iff Send decided the message dies here.
func VSendLocal(self *Peer, ttl int) int {
	m := &Message{Kind: BatchMessageType, TTL: ttl, Payload: []byte{1}}
	bareAgent(self, NewTopology()).Send(m)
	return m.TTL
}

// VWasProcessed: BatchProcessor.wasProcessed for an agent with the given cache (nil = no cache).
func VWasProcessed(c Cache, b *protocol.BatchSnapshots) bool {
	a := bareAgent(NewPeer("self", "127.0.0.1", 1, "auditor"), NewTopology())
	a.Cache = c
	return NewBatchProcessor(a, nil, log.L()).wasProcessed(b)
}

// VWasProcessedCfg: the same on an agent whose configuration carries the given broadcast timeout.
func VWasProcessedCfg(c Cache, b *protocol.BatchSnapshots, broadcastTimeout time.Duration) bool {
	a := bareAgent(NewPeer("self", "127.0.0.1", 1, "auditor"), NewTopology())
	a.Cache = c
	a.config.BroadcastTimeout = broadcastTimeout
	return NewBatchProcessor(a, nil, log.L()).wasProcessed(b)
}

// VTopology exposes the agent's view.
func (a *Agent) VTopology() *Topology { return a.topology }

// VMemberEvent is one membership notification as memberlist delivers it to the agent's event delegate.
type VMemberEvent struct {
	Kind int // 0 join, 1 leave, 2 update
	Name string
	Role string
	Port uint16
}

// VDelegateView feeds the notifications to a fresh agent's event delegate (never concurrently, as memberlist does)
// and returns, after each one, the names the agent's topology lists for every role.
func VDelegateView(events []VMemberEvent, roles []string) [][]string {
	a := bareAgent(NewPeer("self", "127.0.0.1", 1, "auditor"), NewTopology())
	d := &eventDelegate{agent: a, log: log.L()}
	var views [][]string
	for _, e := range events {
		meta, _ := (&Meta{Role: e.Role}).Encode()
		n := &memberlist.Node{Name: e.Name, Addr: net.ParseIP("127.0.0.1"), Port: e.Port, Meta: meta}
		switch e.Kind {
		case 0:
			d.NotifyJoin(n)
		case 1:
			d.NotifyLeave(n)
		default:
			d.NotifyUpdate(n)
		}
		var view []string
		for _, r := range roles {
			var names []string
			if pl := a.topology.Get(r); pl != nil {
				for _, p := range pl.L {
					if p != nil {
						names = append(names, r+"/"+p.Name)
					}
				}
			}
			sort.Strings(names)
			view = append(view, names...)
		}
		views = append(views, view)
	}
	return views
}
