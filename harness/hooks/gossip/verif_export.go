//go:build verif

// Export-only hook for the verification harness (add-only, no behaviour).
package gossip

import (
	"context"
	"net"
	"sort"
	"sync"
	"sync/atomic"
	"time"

	"github.com/prometheus/client_golang/prometheus"

	"github.com/hashicorp/memberlist"
	"github.com/bbva/qed/log"
	"github.com/bbva/qed/protocol"
)

func bareAgent(self *Peer, topo *Topology) *Agent {
	return &Agent{Self: self, topology: topo, log: log.L(), quitCh: make(chan bool), config: *DefaultConfig()}
}

// VRoute: the names Agent.route would send to.
func VRoute(self *Peer, topo *Topology, src *Peer) []string {
	var out []string
	for _, n := range bareAgent(self, topo).route(src) {
		out = append(out, n.Name)
	}
	return out
}

// VSendLocal runs Agent.Send on an agent that knows nobody (nothing reaches the transport) and returns the
// TTL the message is left with: unchanged iff Send decided the message dies here.
func VSendLocal(self *Peer, ttl int) int {
	m := &Message{Kind: BatchMessageType, TTL: ttl, Payload: []byte{1}}
	bareAgent(self, NewTopology()).Send(m)
	return m.TTL
}

// "Was this batch processed before?", decided by BEHAVIOUR rather than by calling the private method (whose name and
// signature a refactoring may change): the batch is sent through a real BatchProcessor on an agent with the given cache,
// one counting task factory and a counting task manager; it was "processed before" iff no task is created for it. A
// sentinel batch that nobody has seen follows it: when the sentinel's task appears the first message has been handled.
type vCountTM struct{}

func (t *vCountTM) Start()         {}
func (t *vCountTM) Stop()          {}
func (t *vCountTM) Add(Task) error { return nil }
func (t *vCountTM) Len() int       { return 0 }

// the factory sees the batch a task is created for: the sentinel is recognised by its signature
type vCountTF struct {
	sentinel string
	others   int32
	done     chan struct{}
}

func (f *vCountTF) New(ctx context.Context) Task {
	if b, ok := ctx.Value("batch").(*protocol.BatchSnapshots); ok && b != nil && len(b.Snapshots) == 1 && b.Snapshots[0] != nil && string(b.Snapshots[0].Signature) == f.sentinel {
		select {
		case f.done <- struct{}{}:
		default:
		}
	} else {
		atomic.AddInt32(&f.others, 1)
	}
	return func() error { return nil }
}
func (f *vCountTF) Metrics() []prometheus.Collector { return nil }

var vSentinel uint64

func vWasProcessed(a *Agent, b *protocol.BatchSnapshots) bool {
	a.Tasks = &vCountTM{}
	a.In = MessageBus{log: a.log}
	a.Out = MessageBus{log: a.log}
	k := atomic.AddUint64(&vSentinel, 1)
	tf := &vCountTF{sentinel: time.Now().Format(time.RFC3339Nano) + "/verif-sentinel", done: make(chan struct{}, 1)}
	p := NewBatchProcessor(a, []TaskFactory{tf}, log.L())
	ch := make(chan *Message, 2)
	p.Subscribe(0, ch)
	defer p.Stop()
	payload, err := b.Encode()
	if err != nil {
		return false
	}
	ch <- &Message{Kind: BatchMessageType, TTL: 0, Payload: payload}
	sent := &protocol.BatchSnapshots{Snapshots: []*protocol.SignedSnapshot{{Snapshot: &protocol.Snapshot{Version: k}, Signature: []byte(tf.sentinel)}}}
	sp, _ := sent.Encode()
	ch <- &Message{Kind: BatchMessageType, TTL: 0, Payload: sp}
	select {
	case <-tf.done: // the processor handles one message after the other: the batch has been dealt with
	case <-time.After(10 * time.Second):
	}
	return atomic.LoadInt32(&tf.others) == 0
}

// a task manager that refuses every task of the second factory (a full queue, a manager that is shutting down)
type vRefusingTM struct{ n int32 }

func (t *vRefusingTM) Start() {}
func (t *vRefusingTM) Stop()  {}
func (t *vRefusingTM) Add(Task) error {
	if atomic.AddInt32(&t.n, 1)%2 == 0 {
		return context.DeadlineExceeded
	}
	return nil
}
func (t *vRefusingTM) Len() int { return 0 }

// VRedeliverRefusing: an agent with two task factories whose task manager accepts the first factory's task and refuses the
// second's; the same batch arrives `times` times. Returns how many tasks each factory created for the batch.
func VRedeliverRefusing(c Cache, b *protocol.BatchSnapshots, times int) (int, int) {
	a := bareAgent(NewPeer("self", "127.0.0.1", 1, "monitor"), NewTopology())
	a.Cache = c
	a.Tasks = &vRefusingTM{}
	a.In = MessageBus{log: a.log}
	a.Out = MessageBus{log: a.log}
	sentinel := time.Now().Format(time.RFC3339Nano) + "/verif-sentinel-2"
	f1 := &vCountTF{sentinel: sentinel, done: make(chan struct{}, 1)}
	f2 := &vCountTF{sentinel: sentinel, done: make(chan struct{}, 1)}
	p := NewBatchProcessor(a, []TaskFactory{f1, f2}, log.L())
	ch := make(chan *Message, times+1)
	p.Subscribe(0, ch)
	defer p.Stop()
	payload, err := b.Encode()
	if err != nil {
		return 0, 0
	}
	for i := 0; i < times; i++ {
		ch <- &Message{Kind: BatchMessageType, TTL: 0, Payload: payload}
	}
	sent := &protocol.BatchSnapshots{Snapshots: []*protocol.SignedSnapshot{{Snapshot: &protocol.Snapshot{Version: atomic.AddUint64(&vSentinel, 1)}, Signature: []byte(sentinel)}}}
	sp, _ := sent.Encode()
	ch <- &Message{Kind: BatchMessageType, TTL: 0, Payload: sp}
	select {
	case <-f2.done:
	case <-time.After(10 * time.Second):
	}
	return int(atomic.LoadInt32(&f1.others)), int(atomic.LoadInt32(&f2.others))
}

// VWasProcessed: was the batch processed before, on an agent with the given cache (nil = no cache)?
func VWasProcessed(c Cache, b *protocol.BatchSnapshots) bool {
	a := bareAgent(NewPeer("self", "127.0.0.1", 1, "auditor"), NewTopology())
	a.Cache = c
	return vWasProcessed(a, b)
}

// VWasProcessedCfg: the same on an agent whose configuration carries the given broadcast timeout.
func VWasProcessedCfg(c Cache, b *protocol.BatchSnapshots, broadcastTimeout time.Duration) bool {
	a := bareAgent(NewPeer("self", "127.0.0.1", 1, "auditor"), NewTopology())
	a.Cache = c
	a.config.BroadcastTimeout = broadcastTimeout
	return vWasProcessed(a, b)
}

// VTopology exposes the agent's view.
func (a *Agent) VTopology() *Topology { return a.topology }

// VMemberEvent is one membership notification as memberlist delivers it to the agent's event delegate.
type VMemberEvent struct {
	Kind int // 0 join, 1 leave, 2 update
	Name string
	Role string
	Port uint16
}

// VDelegateView feeds the notifications to a fresh agent's event delegate (never concurrently, as memberlist does)
// and returns, after each one, the names the agent's topology lists for every role.
func VDelegateView(events []VMemberEvent, roles []string) [][]string {
	a := bareAgent(NewPeer("self", "127.0.0.1", 1, "auditor"), NewTopology())
	d := &eventDelegate{agent: a, log: log.L()}
	var views [][]string
	for _, e := range events {
		meta, _ := (&Meta{Role: e.Role}).Encode()
		n := &memberlist.Node{Name: e.Name, Addr: net.ParseIP("127.0.0.1"), Port: e.Port, Meta: meta}
		switch e.Kind {
		case 0:
			d.NotifyJoin(n)
		case 1:
			d.NotifyLeave(n)
		default:
			d.NotifyUpdate(n)
		}
		var view []string
		for _, r := range roles {
			var names []string
			if pl := a.topology.Get(r); pl != nil {
				for _, p := range pl.L {
					if p != nil {
						names = append(names, r+"/"+p.Name)
					}
				}
			}
			sort.Strings(names)
			view = append(view, names...)
		}
		views = append(views, view)
	}
	return views
}

// ---- the batch processor on its buses, with a cache that has some latency (Agent.Cache is an interface: a remote or
// disk-backed cache is a legitimate implementation) and a task manager that counts.
type vCountTasks struct {
	mu sync.Mutex
	n  int
}

func (c *vCountTasks) Start() {}
func (c *vCountTasks) Stop()  {}
func (c *vCountTasks) Len() int { return 0 }
func (c *vCountTasks) Add(t Task) error {
	c.mu.Lock()
	c.n++
	c.mu.Unlock()
	return nil
}

type vSlowCache struct {
	inner Cache
	d     time.Duration
}

func (c *vSlowCache) Get(k []byte) ([]byte, error) { time.Sleep(c.d); return c.inner.Get(k) }
func (c *vSlowCache) Set(k, v []byte, e int) error  { time.Sleep(c.d); return c.inner.Set(k, v, e) }

type vNopFactory struct{}

func (vNopFactory) New(context.Context) Task        { return func() error { return nil } }
func (vNopFactory) Metrics() []prometheus.Collector { return nil }

type vCountSub struct {
	mu sync.Mutex
	n  int
}

func (s *vCountSub) Subscribe(id int, ch <-chan *Message) {
	go func() {
		for range ch {
			s.mu.Lock()
			s.n++
			s.mu.Unlock()
		}
	}()
}

// VProcessorCopies publishes `copies` copies of one batch on the agent's In bus at once and returns how many tasks
// were enqueued and how many times the batch was forwarded to the Out bus.
func VProcessorCopies(inner Cache, latency time.Duration, copies int, b *protocol.BatchSnapshots) (tasks, forwarded int) {
	a := bareAgent(NewPeer("self", "127.0.0.1", 1, "auditor"), NewTopology())
	a.Cache = &vSlowCache{inner: inner, d: latency}
	ct := &vCountTasks{}
	a.Tasks = ct
	a.In = MessageBus{log: log.L()}
	a.Out = MessageBus{log: log.L()}
	bp := NewBatchProcessor(a, []TaskFactory{vNopFactory{}}, log.L())
	a.In.Subscribe(BatchMessageType, bp, 255)
	sub := &vCountSub{}
	a.Out.Subscribe(BatchMessageType, sub, 255)
	payload, _ := b.Encode()
	for i := 0; i < copies; i++ {
		_ = a.In.Publish(&Message{Kind: BatchMessageType, From: a.Self, TTL: 2, Payload: append([]byte{}, payload...)})
	}
	time.Sleep(time.Duration(copies)*3*latency + 400*time.Millisecond)
	bp.Stop()
	ct.mu.Lock()
	tasks = ct.n
	ct.mu.Unlock()
	sub.mu.Lock()
	forwarded = sub.n
	sub.mu.Unlock()
	return
}
