import vlib, common

RULE = ("histories of 1..70 events (quick) / ..200 (thorough), random Add/AddBulk split, random write-cache size; "
        "ALL pairs (i<=j): incremental proof + verification, ALL (index<=version): membership proof + verification; "
        "on a sample of pairs every single-entry alteration, a dropped entry, altered versions (neighbours, 0, n, 2^63, 2^64-1), "
        "digests of other versions and of a forked log; plus the balloon command: Balloon.QueryConsistency on random (s, e) including the newest version, out-of-range and reversed pairs, answers and verdicts compared with the model. distinct = distinct (kind,n,i,j); non-trivial = audit path with >1 (incr) / >0 (memb) entries clientv: the real client.HTTPClient (MembershipAutoVerify, MembershipDigest+MembershipVerify, IncrementalAutoVerify, Incremental+IncrementalVerify) over JSON against an authentic snapshot store and a server that is honest, answers for other versions/pairs, relabels them, presents the proof of a stored event for a never-added digest sharing its prefix (incl. a 64-byte audit entry), a proof of absence for a present event, tampered fields, or serves a forked log; logs of ~12, ~35 and >1040 events (two-digit heights on the wire); oracle: the published log. agents (monitor part): the real monitor task on honest, altered and re-gossiped batches against a real node.")


def run(v, tier, seed, replay):
    proofs_ok = vlib.coq_stage(v, "C03")
    s, res = common.harness(v, "C03", "core", "hist", tier, seed)
    try:
        common.absorb(v, res, RULE)
        # C03 only owns its own signatures; the history-membership oracles belong to C01/C02
        v.violations = [x for x in v.violations if x["signature"].startswith("C03")]
        mism = common.model_compare(v, s, res)
        v.coverage["model_vs_impl_mismatches"] = mism
        v.coverage["traces_validated_against_impl"] = res["stats"].get("histories", 0)
        if mism != "[]" and not v.violations:
            v.violation("C03:correspondence", "history model and implementation disagree (case, [(component,index)]): %s; components: 1 root digests, 2 incremental proofs of start version i, 3 membership proofs of index i, 4/5 verdict on the k-th alteration" % mism[:300],
                        dict(kind="correspondence", theorem="C03_* (History/HistModel.v vs balloon/history)", mismatches=mism, seed=seed, tier=tier), no_input=True)
    finally:
        s.cleanup()
    # the balloon-level entry point (Balloon.QueryConsistency: range validation, locking) on the same kind of logs
    import re
    nviol = len(v.violations)
    s2, res2 = common.harness(v, "C03", "core", "balloon", tier, seed)
    try:
        common.absorb(v, res2, RULE)
        v.violations = [x for x in v.violations if x["signature"].startswith("C03")]
        mism2 = common.model_compare(v, s2, res2)
        cons = re.findall(r"\((\d+)%N, 3\d\d\d%N\)", mism2)
        v.coverage["model_vs_impl_mismatches_balloon_consistency"] = "[]" if not cons else mism2
        if cons and len(v.violations) == nviol:
            v.violation("C03:correspondence:balloon", "Balloon.QueryConsistency answers differ from the model (case, [(step, 3000+class)]): %s" % mism2[:300],
                        dict(kind="correspondence", theorem="C03_incremental_complete via Balloon.query_consistency (Balloon/Balloon.v vs balloon/balloon.go)", mismatches=mism2, seed=seed, tier=tier), no_input=True)
    finally:
        s2.cleanup()
    common.client_entry_points(v, "C03", tier, seed, ('C03',))
    # the monitor agent (cmd/agent_monitor.go) is how a fork is exposed in a deployment: its outcomes on honest, altered
    # and re-gossiped batches against a real node (the `agents` command of C19)
    s3, res3 = common.harness(v, "C03", "node", "agents", tier, seed, need_rocks=True)
    try:
        st = res3.get("stats", {})
        v.coverage.setdefault("distribution", {}).update({"agents_" + k: n for k, n in st.items() if k.startswith("monitor")})
        for viol in (res3.get("violations") or []):
            if viol["signature"].startswith("C19:monitor"):
                v.violation("C03:" + viol["signature"][4:], viol["what"], viol["replay"])
    finally:
        s3.cleanup()
    v.coverage["trusted_base"] = vlib.TRUSTED_COMMON + [
        "premise H_inj (hash injective on the seven structured input formats) in the soundness theorems; satisfiable (term instance); SHA-256 collision resistance and unambiguity of the byte concatenation are what it stands for",
        "modelled rather than verified: crypto/sha256 (Gallina SHA-256 in Base/Sha256.v compared byte-for-byte on every run), storage/bplus as the node store, Go map semantics of AuditPath"]
    v.assumptions = ["SHA-256 collision resistance (H_inj)", "uint64 arithmetic does not wrap for versions < 2^63 (positions computed in N)"]
