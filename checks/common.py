import json, os, re
import vlib


class HarnessCrash(Exception):
    def __init__(self, msg, last_input):
        Exception.__init__(self, msg)
        self.last_input = last_input


def run_cmd(s, b, cmd, tier, seed, extra_args=(), timeout=3000, sub=None):
    """Run one harness command of an already built binary; its output goes to s.work (or s.work/<sub>)."""
    work = s.work if sub is None else os.path.join(s.work, sub)
    os.makedirs(work, exist_ok=True)
    for fn in ("result.json", "current_input.json"):
        if os.path.exists(os.path.join(work, fn)):
            os.remove(os.path.join(work, fn))
    rc, out, dt = vlib.sh([b, cmd, "--seed", str(seed), "--tier", tier, "--out", work] + list(extra_args),
                          cwd=work, timeout=timeout, env=vlib.GOENV)
    res_path = os.path.join(work, "result.json")
    if rc != 0 or not os.path.exists(res_path):
        tail = out[-3000:]
        last = os.path.join(work, "current_input.json")
        last_input = open(last).read() if os.path.exists(last) else None
        if last_input is not None:
            raise HarnessCrash("harness process died (rc=%s) while handling an input:\n%s" % (rc, tail[-1500:]), last_input)
        raise RuntimeError("harness command %s failed rc=%s:\n%s" % (cmd, rc, tail))
    res = json.load(open(res_path))
    res["_stdout"] = out[-2000:]
    res["_wall"] = dt
    res["_work"] = work
    return res


def build(pid, binary, need_rocks=False, race=False):
    s = vlib.Scratch(pid)
    s.prepare(need_rocks)
    b, log = s.build(binary, race=race)
    if b is None:
        s.cleanup()
        raise RuntimeError("harness does not build against the current tree:\n" + log[-3000:])
    return s, b


def harness(v, pid, binary, cmd, tier, seed, need_rocks=False, extra_args=(), timeout=3000, race=False):
    """Scratch copy -> build -> run one harness command. Returns (scratch, result dict) ; caller cleans up."""
    s, b = build(pid, binary, need_rocks, race)
    try:
        res = run_cmd(s, b, cmd, tier, seed, extra_args, timeout)
    except Exception:
        s.cleanup()
        raise
    return s, res


def model_compare(v, s, res, casefile="cases.v", name="R", what="model/implementation correspondence"):
    """coqc the cases file; returns the printed mismatch list text ('[]' = agreement)."""
    path = os.path.join(s.work, casefile)
    rc, out = vlib.run_coq_cases(path)
    val = vlib.parse_result_list(out, name) if rc == 0 else None
    if val is None:
        raise RuntimeError("model evaluation failed for %s:\n%s" % (casefile, out[-3000:]))
    return val


def absorb(v, res, rule, level_keys=True):
    st = res.get("stats", {})
    v.coverage["evaluations"] = v.coverage.get("evaluations", 0) + st.get("evaluations", 0)
    v.coverage["distinct_nontrivial"] = v.coverage.get("distinct_nontrivial", 0) + st.get("distinct_nontrivial", 0)
    v.coverage["rule"] = rule
    v.coverage.setdefault("samples", []).extend(res.get("samples") or [])
    v.coverage.setdefault("distribution", {}).update({k: n for k, n in st.items() if k not in ("evaluations", "distinct_nontrivial")})
    for viol in (res.get("violations") or []):
        # a broken modelling assumption is a broken correspondence: reported, but not as a concrete failing input
        v.violation(viol["signature"], viol["what"], viol["replay"], no_input=(":model-assumption:" in viol["signature"]))


def client_entry_points(v, pid, tier, seed, prefixes):
    """The real client.HTTPClient (JSON over HTTP, protocol.To*Proof, *Verify and *AutoVerify) against an authentic
    snapshot store and an honest / adversarial / forked server (`clientv`); oracle = the published log."""
    s, res = harness(v, pid, "core", "clientv", tier, seed)
    try:
        st = res.get("stats", {})
        v.coverage.setdefault("distribution", {}).update({"clientv_" + k: n for k, n in st.items()})
        v.coverage["evaluations"] = v.coverage.get("evaluations", 0) + st.get("evaluations", 0)
        v.coverage["distinct_nontrivial"] = v.coverage.get("distinct_nontrivial", 0) + st.get("distinct_nontrivial", 0)
        v.coverage.setdefault("samples", []).extend([dict(clientv=x) for x in (res.get("samples") or [])])
        for viol in (res.get("violations") or []):
            if viol["signature"].startswith(tuple(prefixes)):
                v.violation(viol["signature"], viol["what"], viol["replay"])
            elif pid == "C13" and "honest-answer-rejected" in viol["signature"]:
                # a genuine answer that the server-side object verifies but the client, after JSON and HTTP, does not
                v.violation("C13:genuine-answer-lost-on-the-wire:" + viol["signature"].split(":")[-1], viol["what"], viol["replay"])
        if pid == "C02":
            mism = model_compare(v, s, res)
            v.coverage["model_vs_impl_mismatches_clientv"] = mism
            if mism != "[]":
                v.violation("C02:correspondence:clientv", "client.MembershipAutoVerify and its model (Balloon/AutoVerify.v: which versions the answer must carry, which published snapshots it is checked against) disagree on the calls with these indexes: %s" % mism[:300],
                            dict(kind="correspondence", theorem="C02_auto_verify_sound is about Balloon/AutoVerify.v auto_verify; its correspondence with client/client.go MembershipAutoVerify no longer checks", mismatches=mism, seed=seed, tier=tier), no_input=True)
    finally:
        s.cleanup()


def oracle_only(v, pid, binary, cmd, tier, seed, prefixes, need_rocks=False):
    """Run a harness command whose oracles alone decide (no model evaluation) and keep the violations of this property."""
    s, res = harness(v, pid, binary, cmd, tier, seed, need_rocks=need_rocks)
    try:
        st = res.get("stats", {})
        v.coverage.setdefault("distribution", {}).update({cmd + "_" + k: n for k, n in st.items()})
        v.coverage["evaluations"] = v.coverage.get("evaluations", 0) + st.get("evaluations", 0)
        for viol in (res.get("violations") or []):
            if viol["signature"].startswith(tuple(prefixes)):
                v.violation(viol["signature"], viol["what"], viol["replay"])
    finally:
        s.cleanup()


def hyperb_tie(v, pid, tier, seed, theorem):
    """The batch-level hyper model (Hyper/HyperBatch.v) against balloon/hyper: tables, root hashes, searches and
    re-opened trees of the `hyperb` command.  Used by every property whose theorems speak about that model."""
    s, res = harness(v, pid, "core", "hyperb", tier, seed)
    try:
        st = res.get("stats", {})
        v.coverage.setdefault("distribution", {}).update({"hyperb_" + k: n for k, n in st.items()})
        v.coverage["evaluations"] = v.coverage.get("evaluations", 0) + st.get("evaluations", 0)
        for viol in (res.get("violations") or []):
            if viol["signature"].startswith(pid):
                v.violation(viol["signature"], viol["what"], viol["replay"])
            else:
                v.violation("%s:hyper-batch-level:%s" % (pid, viol["signature"]), viol["what"], viol["replay"])
        mism = model_compare(v, s, res)
        v.coverage.setdefault("model_vs_impl_mismatches_hyperb", mism)
        if mism != "[]":
            v.violation("%s:correspondence:hyperb" % pid,
                        "the batch-level hyper model and balloon/hyper disagree (case, [(step, code)]; code 1 root hash, 2-4 store/tiles/cache tables, 5 search value, 6 search audit path, 7+ reopen): %s" % mism[:300],
                        dict(kind="correspondence", theorem=theorem, mismatches=mism, seed=seed, tier=tier), no_input=True)
    finally:
        s.cleanup()


def node_harness(v, pid, cmd, tier, seed, rule, timeout=3000):
    """Run a node-level (RocksDB/raft) harness command; a death of the harness process while a scenario is
    noted is a violation (a panic inside a goroutine of the code under test cannot be recovered)."""
    try:
        s, res = harness(v, pid, "node", cmd, tier, seed, need_rocks=True, timeout=timeout)
    except HarnessCrash as e:
        import re
        m = re.search(r"(WARNING: DATA RACE[^\n]*|panic: [^\n]*|fatal error: [^\n]*|Assertion[^\n]*)", str(e))
        why = m.group(1) if m else "process died"
        v.violation("%s:process-death" % pid, "the process hosting the node(s) died during a scenario of `%s`: %s" % (cmd, why[:300]),
                    dict(kind="process-death", command=cmd, scenario=e.last_input[:4000], seed=seed, tier=tier))
        v.coverage.setdefault("evaluations", 0)
        v.coverage["evaluations"] += 1
        v.coverage.setdefault("distinct_nontrivial", 2)
        v.coverage["rule"] = rule
        v.coverage.setdefault("samples", []).append(dict(died_during=e.last_input[:600]))
        return None, None
    absorb(v, res, rule)
    return s, res


def node_session(v, pid, cmds, tier, seed, rule, prefixes=None, timeout=3000, race=False):
    """Build the node harness once and run several commands. Violations whose signature does not start with one of
    `prefixes` (default: the property id) belong to another property's check (which runs the same command) and are only
    counted.  Returns (scratch, {cmd: result}) - caller cleans up the scratch."""
    prefixes = tuple(prefixes or (pid,))
    s, b = build(pid, "node", need_rocks=True, race=race)
    results = {}
    v.coverage["rule"] = rule
    from concurrent.futures import ThreadPoolExecutor

    def one(cmd):
        try:
            return cmd, run_cmd(s, b, cmd, tier, seed, timeout=timeout, sub=cmd), None
        except HarnessCrash as e:
            return cmd, None, e
        except RuntimeError as e:
            # the process hosting the nodes exited abnormally outside a noted scenario (e.g. an abort inside the storage
            # engine while a node is being opened or closed): still a death of the code under test, not of the machinery
            if "failed rc=" in str(e):
                return cmd, None, HarnessCrash(str(e), "(no scenario noted; output tail: %s)" % str(e)[-600:])
            raise

    with ThreadPoolExecutor(max_workers=3) as ex:
        outs = list(ex.map(one, cmds))
    for cmd, res, e in outs:
        if e is not None:
            m = re.search(r"(WARNING: DATA RACE[^\n]*|panic: [^\n]*|fatal error: [^\n]*|Assertion[^\n]*)", str(e))
            why = m.group(1) if m else "process died"
            v.violation("%s:process-death:%s" % (pid, cmd), "the process hosting the node(s) died during a scenario of `%s`: %s" % (cmd, why[:300]),
                        dict(kind="process-death", command=cmd, scenario=e.last_input[:4000], seed=seed, tier=tier))
            v.coverage["evaluations"] = v.coverage.get("evaluations", 0) + 1
            v.coverage.setdefault("distinct_nontrivial", 2)
            v.coverage.setdefault("samples", []).append(dict(died_during=e.last_input[:600]))
            continue
        other = [x for x in (res.get("violations") or []) if not x["signature"].startswith(prefixes)]
        res["violations"] = [x for x in (res.get("violations") or []) if x["signature"].startswith(prefixes)]
        if other:
            v.coverage.setdefault("signals_for_other_properties", []).extend(sorted(set(x["signature"] for x in other)))
        absorb(v, res, rule)
        v.coverage.setdefault("commands", {})[cmd] = dict(wall_s=round(res["_wall"], 1), **{k: n for k, n in res.get("stats", {}).items() if k in ("evaluations", "distinct_nontrivial")})
        results[cmd] = res
    return s, results


def compare_cases(v, s, results, pid, cases, seed, tier):
    """For each command with a cases.v, evaluate the model in the kernel; a non-empty mismatch list is a violation of the
    correspondence (reported with no failing input unless the direct oracles of the same run already found one)."""
    v.coverage.setdefault("model_vs_impl_mismatches", {})
    n = 0
    for cmd, (fn, thm) in cases.items():
        res = results.get(cmd)
        if res is None:
            continue
        path = os.path.join(res["_work"], "cases.v")
        rc, out = vlib.run_coq_cases(path)
        val = vlib.parse_result_list(out, "R") if rc == 0 else None
        if val is None:
            raise RuntimeError("model evaluation failed for %s:\n%s" % (path, out[-3000:]))
        v.coverage["model_vs_impl_mismatches"][cmd] = val
        n += res.get("stats", {}).get("evaluations", 0)
        if val != "[]" and not v.violations:
            v.violation("%s:correspondence:%s" % (pid, cmd),
                        "the Coq model (%s) and the implementation disagree on cases %s of `%s`" % (fn, val[:300], cmd),
                        dict(kind="correspondence", theorem=thm, mismatches=val, seed=seed, tier=tier, cases_file_excerpt=open(path).read()[:3000]), no_input=True)
    v.coverage["traces_validated_against_impl"] = n
