import vlib, common

RULE = ("adversarial answers derived from genuine ones on logs of 1..40 (quick) / ..150 events: Exists flipped, each version field set to neighbours/0/n/2^63/2^64-1, "
        "KeyDigest replaced (another event, never-added neighbour sharing 24..255 bits), every kind of single entry alteration/drop/oversized entry in both paths, cleared paths, "
        "each verified for the genuine digest, a never-added neighbour and another event, against authentic snapshots of the right and of other versions; "
        "oracle: accepted => the claim is true in the log. distinct = (case,state,event,version); non-trivial = genuine base answer with non-empty history path clientv: the real client.HTTPClient (MembershipAutoVerify, MembershipDigest+MembershipVerify, IncrementalAutoVerify, Incremental+IncrementalVerify) over JSON against an authentic snapshot store and a server that is honest, answers for other versions/pairs, relabels them, presents the proof of a stored event for a never-added digest sharing its prefix (incl. a 64-byte audit entry), a proof of absence for a present event, tampered fields, or serves a forked log; logs of ~12, ~35 and >1040 events (two-digit heights on the wire); oracle: the published log.")


def run(v, tier, seed, replay):
    vlib.coq_stage(v, "C02")
    s, res = common.harness(v, "C02", "core", "balloon", tier, seed)
    try:
        common.absorb(v, res, RULE)
        v.violations = [x for x in v.violations if x["signature"].startswith("C02")]
        # the history-level oracle of the hist command belongs to C02 as well
        s2, res2 = common.harness(v, "C02h", "core", "hist", tier, seed)
        try:
            for viol in (res2.get("violations") or []):
                if viol["signature"].startswith("C02"):
                    v.violation(viol["signature"], viol["what"], viol["replay"])
            v.coverage["history_level_alterations"] = res2["stats"].get("memb_alterations", 0)
        finally:
            s2.cleanup()
        mism = common.model_compare(v, s, res)
        v.coverage["model_vs_impl_mismatches"] = mism
        v.coverage["traces_validated_against_impl"] = res["stats"].get("adversarial_answers", 0)
        if mism != "[]" and not v.violations:
            v.violation("C02:correspondence", "verifier model and implementation disagree on some answer (case, [(step, code)]); 2000+v = model verdict v differs from the observed one: %s" % mism[:300],
                        dict(kind="correspondence", theorem="C02_digest_verify_sound is about Balloon.digest_verify; its correspondence with protocol.ToBalloonProof + MembershipProof.DigestVerify no longer checks", mismatches=mism, seed=seed, tier=tier), no_input=True)
    finally:
        s.cleanup()
    common.client_entry_points(v, "C02", tier, seed, ('C02',))
    v.coverage["trusted_base"] = vlib.TRUSTED_COMMON + [
        "premise H_inj (hash injective on its structured inputs) and D_eqb_eq; satisfiable (Example C02_premises_hold on the free term algebra). It stands for SHA-256 collision resistance AND for audit-path entries being 32-byte strings: the verifier does not check entry lengths, the byte-level argument for that is in DESIGN.md",
        "modelled rather than verified: crypto/sha256, encoding/json is not involved (the wire struct is built directly), Go map semantics of the audit paths"]
    v.assumptions = ["SHA-256 collision resistance (H_inj)", "snapshots handed to the verifier are authentic"]
