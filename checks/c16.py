import vlib, common

RULE = 'backup: random sequences of add / backup / delete-backup / list on a real RaftNode; every listing and every restored event count is compared with the Coq model; every live backup is restored into a fresh directory and a node opened on it: version, membership proofs of all its events and a consistency proof against the snapshots ORIGINALLY issued, ignorance of later events, next version and digest; transfer: the same on a replica that was itself restored by state transfer. distinct = (trial, backup, event)'
CMDS = ['backup', 'backuplive', 'transfer']
CASES = {'backup': ('run_backup_cases', 'C16_abstraction_step / C16_backup_restores_log_as_of_backup (Fsm/Backup.v vs consensus/backup.go, storage/rocks)')}


def run(v, tier, seed, replay):
    vlib.coq_stage(v, "C16")
    s, results = common.node_session(v, "C16", CMDS, tier, seed, RULE)
    try:
        common.compare_cases(v, s, results, "C16", CASES, seed, tier)
    finally:
        s.cleanup()
    v.coverage["trusted_base"] = vlib.TRUSTED_COMMON + [
        "a node is modelled by its durable state: the list of event digests its tables were built from, fsmState.Index and fsmState.BalloonVersion; one atomic store write per applied entry (RocksDB WriteBatch atomicity is trusted, exercised by kill -9 at the write)",
        "hashicorp/raft is trusted to deliver committed entries in index order and to re-deliver only entries it delivered before (hypotheses wf_log / olds_ok of the theorems); the harness runs the real raft library",
        "balloon digests/proofs are functions of the event list (theorems of C01/C03/C04); volatile caches are compared, not modelled: every scenario verifies served proofs against the snapshots originally issued",
        "system librocksdb 7.8.3 through the link shim (harness/shim/patch_rocksdb.py) instead of the vendored c-deps build"]
    v.assumptions = ["RocksDB's BackupEngine is trusted to copy the files it is given"]
