import vlib, common

RULE = 'restart: a real RaftNode is closed cleanly after k insertions (k = 0, 1, 4, ... including 0) with a watchdog on Close, reopened on the same data, and continued: versions stay dense and digests equal those of a node never stopped; fsm: clean stop/reopen between incarnations, every outcome compared with the Coq model. Shutdown completing / resources released is decided by the watchdog and the RocksDB assertions of the system library only; server: the real server.Server (API/management servers on real ports, sender, gossip agent, raft, RocksDB) started, used over HTTP, stopped under a watchdog and started again on the same directories, three lives; hyperb: the hyper tree alone, re-created on the same store at random call boundaries - the three tables after the rebuild, every later root hash and search compared with the batch-level Coq model (hb_reopen)'
CMDS = ['restart', 'fsm', 'server']
CASES = {'fsm': ('run_fsm_cases', 'C08_restart_invisible (Fsm/Fsm.v life vs consensus/fsm.go)')}


def run(v, tier, seed, replay):
    vlib.coq_stage(v, "C08")
    s, results = common.node_session(v, "C08", CMDS, tier, seed, RULE)
    try:
        common.compare_cases(v, s, results, "C08", CASES, seed, tier)
    finally:
        s.cleanup()
    common.hyperb_tie(v, "C08", tier, seed, "C08_hyper_tree_recreation_invisible is about Hyper/HyperBatch.v (hb_reopen / rebuild); its correspondence with balloon/hyper/rebuild.go no longer checks")
    v.coverage["trusted_base"] = vlib.TRUSTED_COMMON + [
        "a node is modelled by its durable state: the list of event digests its tables were built from, fsmState.Index and fsmState.BalloonVersion; one atomic store write per applied entry (RocksDB WriteBatch atomicity is trusted, exercised by kill -9 at the write)",
        "hashicorp/raft is trusted to deliver committed entries in index order and to re-deliver only entries it delivered before (hypotheses wf_log / olds_ok of the theorems); the harness runs the real raft library",
        "balloon digests/proofs are functions of the event list (theorems of C01/C03/C04); the volatile hyper batch cache and its rebuild from the recovery tiles are modelled (HyperBatch.hb_reopen), compared and proved to represent the same map (Hyper/HyperReopen.v); the history write cache is compared, not modelled: every scenario verifies served proofs against the snapshots originally issued",
        "system librocksdb 7.8.3 through the link shim (harness/shim/patch_rocksdb.py) instead of the vendored c-deps build"]
    v.assumptions = ["'releases every storage resource' is observed through RocksDB's own assertions on Close and a watchdog, not proved"]
