import vlib, common

RULE = 'transfer: 3-node clusters with a tiny raft snapshot threshold; a follower is stopped at a random point, the log is compacted (forced snapshot), the follower returns (or a brand-new node joins) and is brought up by state transfer; afterwards tables, proofs and later insertions are compared across replicas; gap: every (holder prefix, stream start) pair of a log is offered to the leader-side filter through the real FetchSnapshot and must be refused when it leaves a gap and served when contiguous. distinct = (scenario, step) / (held, start)'
CMDS = ['transfer', 'transferlive']
CASES = {}


def run(v, tier, seed, replay):
    vlib.coq_stage(v, "C09")
    s, results = common.node_session(v, "C09", CMDS, tier, seed, RULE)
    try:
        common.compare_cases(v, s, results, "C09", CASES, seed, tier)
    finally:
        s.cleanup()
    v.coverage["trusted_base"] = vlib.TRUSTED_COMMON + [
        "a node is modelled by its durable state: the list of event digests its tables were built from, fsmState.Index and fsmState.BalloonVersion; one atomic store write per applied entry (RocksDB WriteBatch atomicity is trusted, exercised by kill -9 at the write)",
        "hashicorp/raft is trusted to deliver committed entries in index order and to re-deliver only entries it delivered before (hypotheses wf_log / olds_ok of the theorems); the harness runs the real raft library",
        "balloon digests/proofs are functions of the event list (theorems of C01/C03/C04); volatile caches are compared, not modelled: every scenario verifies served proofs against the snapshots originally issued",
        "system librocksdb 7.8.3 through the link shim (harness/shim/patch_rocksdb.py) instead of the vendored c-deps build"]
    v.assumptions = ['the empty-node/one-event ambiguity is a known finding (C09:gap-served:new-node-one-event-missing)']
