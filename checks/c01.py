import vlib, common

RULE = ("logs of 1..40 events (quick) / ..150 (thorough) built by random Add/AddBulk calls with crafted digests (shared prefixes of 0..255 bits, "
        "duplicates across and inside bulks); after every call queries for added events at versions in/above/below [reported,current] and for never-added "
        "neighbours; at the final state every event; each in-range answer is put on the wire and verified against snapshot(q).history and snapshot(current).hyper. "
        "distinct = (case, state, event, version); non-trivial = existence answer with a non-empty history path; "
        "hyperb: the hyper tree alone - after every Add/AddBulk/reopen three searches (a stored key, a key sharing a long prefix, a random key) through "
        "HyperTree.QueryMembership, value and audit path compared with the batch-level Coq search (HyperBatch.bfind) clientv: the real client.HTTPClient (MembershipAutoVerify, MembershipDigest+MembershipVerify, IncrementalAutoVerify, Incremental+IncrementalVerify) over JSON against an authentic snapshot store and a server that is honest, answers for other versions/pairs, relabels them, presents the proof of a stored event for a never-added digest sharing its prefix (incl. a 64-byte audit entry), a proof of absence for a present event, tampered fields, or serves a forked log; logs of ~12, ~35 and >1040 events (two-digit heights on the wire); oracle: the published log. canonlarge: a log of >1300 events closed and reopened (more than 1000 recovery tiles), old events still provable; server: every (event, version) pair through the real HTTP API of a running server, version always sent explicitly.")


def run(v, tier, seed, replay):
    vlib.coq_stage(v, "C01")
    s, res = common.harness(v, "C01", "core", "balloon", tier, seed)
    try:
        common.absorb(v, res, RULE)
        v.violations = [x for x in v.violations if x["signature"].startswith("C01")]
        mism = common.model_compare(v, s, res)
        v.coverage["model_vs_impl_mismatches"] = mism
        v.coverage["traces_validated_against_impl"] = len(res.get("samples", []))
        if mism != "[]" and not v.violations:
            v.violation("C01:correspondence", "balloon model and implementation disagree (case, [(step, code)]); code 901 snapshot digests, 1000+mask query answer fields (1 class,2 exists,4 current,8 query,16 actual,32 hyper path,64 history path), 2000+v verdict, 3000+ consistency: %s" % mism[:300],
                        dict(kind="correspondence", theorem="C01_membership_complete is about Balloon/Balloon.v; its correspondence with balloon/, balloon/history, balloon/hyper no longer checks", mismatches=mism, seed=seed, tier=tier), no_input=True)
    finally:
        s.cleanup()
    common.client_entry_points(v, "C01", tier, seed, ('C01',))
    common.oracle_only(v, "C01", "core", "canonlarge", "quick" if tier == "quick" else "quick", seed, ('C01',))  # >1000 recovery tiles, close/reopen, old events still provable
    common.oracle_only(v, "C01", "node", "server", tier, seed, ('C01',), need_rocks=True)  # every (event, version) pair through the real HTTP API
    common.hyperb_tie(v, "C01", tier, seed, "C01_hyper_batch_search_is_the_published_search is about Hyper/HyperBatch.v (bfind); its correspondence with balloon/hyper/search.go no longer checks")
    v.coverage["trusted_base"] = vlib.TRUSTED_COMMON + [
        "no hypothesis on the hash function in C01_membership_complete; instance hypotheses (key length, injective key bits, value codec round trip, boolean equalities) hold at the SHA-256 instance by construction and are exercised by the correspondence",
        "the hyper tree is modelled at the level of its published construction (Hyper/HyperModel.v: sparse tree + shortcut leaves); the insertion code of balloon/hyper over batches, cache and store is modelled (Hyper/HyperBatch.v) and proved to compute that construction (Hyper/HyperRefine*.v); the search code (pruneToFind over batches) is modelled (HyperBatch.bfind), compared on every run and proved to return the published construction's value and audit path (Hyper/HyperFind.v)",
        "modelled rather than verified: crypto/sha256 (Gallina SHA-256 compared byte-for-byte), storage/bplus, encoding of the wire maps"]
    v.assumptions = ["log shorter than 2^64 events", "write-cache capacity large enough that no unpersisted node is evicted inside one bulk (production: 300)"]
