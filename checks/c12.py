import vlib, common

RULE = ("1500 (quick) / 12000 (thorough) hostile answers derived from genuine membership/incremental JSON of a 20-event log: structural mutations of the decoded JSON tree (delete/junk any field, "
        "null parts, wrong types, boundary versions, digest lengths 0..70, audit-path entries dropped / renamed to keys without separator, with extra separators, negative, >2^64, blank / 600 extra entries / resized values) "
        "and byte-level garbling; each decoded with encoding/json, rebuilt with protocol.To*Proof and verified under recover() and a 5 s watchdog; plus every public client call against a server answering 13 degenerate bodies "
        "(null, {}, [], truncated, ...). distinct = answer index; non-trivial = the answer still decodes")


def run(v, tier, seed, replay):
    vlib.coq_stage(v, "C12")
    try:
        s, res = common.harness(v, "C12", "core", "hostile", tier, seed)
    except common.HarnessCrash as e:
        import re
        m = re.search(r"fatal error: ([^\n]*)", str(e))
        v.violation("C12:process-death:" + (m.group(1) if m else "unknown"), "decoding/verifying a hostile answer killed the process (not recoverable): %s" % (m.group(0) if m else str(e)[:300]),
                    dict(kind="process-death", input=e.last_input, seed=seed, tier=tier))
        v.coverage.update(evaluations=1, distinct_nontrivial=1, rule=RULE, samples=[dict(crashing_input=e.last_input[:500])])
        return
    try:
        common.absorb(v, res, RULE)
        v.violations = [x for x in v.violations if x["signature"].startswith("C12")]
        v.coverage["traces_validated_against_impl"] = res["stats"].get("membership_answers", 0) + res["stats"].get("incremental_answers", 0)
    finally:
        s.cleanup()
    # verdict correspondence of the verifier model (a dropped entry is a rejection on both sides)
    s, res = common.harness(v, "C12", "core", "balloon", tier, seed)
    try:
        for viol in (res.get("violations") or []):
            if viol["signature"].startswith("C12"):
                v.violation(viol["signature"], viol["what"], viol["replay"])
        st = res.get("stats", {})
        panics = {k: n for k, n in st.items() if k.endswith("verdict2")}
        v.coverage["verifier_panics_in_adversarial_stream"] = panics
        if panics:
            v.violation("C12:panic:verifier", "the verifier panicked on altered answers: %r" % panics, dict(kind="panic-count", counts=panics, seed=seed), no_input=False)
        mism = common.model_compare(v, s, res)
        v.coverage["model_vs_impl_mismatches"] = mism
        if mism != "[]" and not v.violations:
            v.violation("C12:correspondence", "verifier model and implementation disagree: %s" % mism[:300],
                        dict(kind="correspondence", theorem="C12_digest_verify_total is about Balloon.digest_verify", mismatches=mism, seed=seed, tier=tier), no_input=True)
    finally:
        s.cleanup()
    common.client_entry_points(v, "C12", tier, seed, ('C12',))
    v.coverage["trusted_base"] = vlib.TRUSTED_COMMON + [
        "encoding/json, base64 and net/http are not modelled: totality of decoding is established by running the real decoder on the hostile stream (no panic, no hang), not by proof",
        "the model verifier is total by construction (Coq functions); what is proved is the bound on its work and that a missing entry yields Reject; that the Go verifier does the same is the correspondence"]
    v.assumptions = ["claimed versions are uint64 (the JSON decoder rejects anything else)"]
