import vlib, common

RULE = ("agents: honest logs of 30..60 distinct events on a real RaftNode behind the real API mux and a tampering proxy; a snapshot-store endpoint holding every signed snapshot and a notifier endpoint. "
        "120/400 cases per log: a batch (1..6 snapshots, increasing versions) and one alteration (none; gossiped event/history/hyper digest bit, version +-1; stored hyper/history digest of the current version, stored snapshot missing; "
        "log answer: history/hyper/incremental audit-path digest bit, actual version, existence flag, failing request). For each case the real auditor and monitor tasks run; the outcome (alert / quiet / no verdict) is compared with an "
        "independent re-verification through the same proxy (alert iff the proof does not verify), with the expectation by construction of the alteration, and with the Coq decision skeletons. Publisher: 25/120 batches drawn with repetition "
        "(inside a batch too) - what reaches the store endpoint is compared with the Coq publisher; two overlapping batches processed concurrently; one snapshot redelivered after 40000/200000 others. distinct = (log, case)")
CMDS = ['agents']
CASES = {'agents': ('run_agent_cases', 'C19_auditor_alerts_iff / C19_monitor_alerts_iff / C19_publisher_once (Agents/Agents.v vs cmd/agent_*.go)')}


def run(v, tier, seed, replay):
    vlib.coq_stage(v, "C19")
    s, results = common.node_session(v, "C19", CMDS, tier, seed, RULE)
    try:
        common.compare_cases(v, s, results, "C19", CASES, seed, tier)
    finally:
        s.cleanup()
    v.coverage["trusted_base"] = vlib.TRUSTED_COMMON + [
        "hook cmd/verif_export.go (add-only, build tag verif): exports the three task factories exactly as the agent commands build them",
        "the auditor and monitor theorems are over the balloon model tied to the code by the C01/C02/C03 correspondence runs; here the agents' control flow is compared (skeleton: answered / stored snapshot found / verifier verdict -> outcome) and the verifier verdict is recomputed independently through the same tampering proxy",
        "the publisher model has a cache that never forgets; the real cache is a bounded freecache (known finding C19:publisher-forwards-twice:after-cache-eviction) and is not atomic across concurrently running tasks (exercised, no duplicate observed)",
        "net/http, encoding/json, gossip.RestSnapshotStore, gossip.SimpleNotifier and the client run for real against httptest endpoints; memberlist gossip is not started (batches are handed to the task factories directly, as gossip.BatchProcessor does)",
        "system librocksdb 7.8.3 through the link shim"]
    v.assumptions = ["events of the honest log are distinct (the property's premise; a repeated event makes the auditor alert on its earlier snapshot)",
                     "hash injective on structured inputs for the two soundness theorems (C19_auditor_quiet_sound, C19_monitor_quiet_sound)",
                     "a failed membership request or a missing stored snapshot gives no verdict (the auditor alerts only for one error type): outside the property"]
