import vlib, common

RULE = "window: the store's Mutate is parked so that an insertion is held between 'computed' and 'persisted'; membership (old event at old and current version, the event being inserted) and consistency queries are issued from other goroutines in that window; each must wait or answer from a consistent state: the observed schedule (which queries returned before the write, what version they saw) must be one the lock-discipline model permits, and every answer must verify against the issued snapshots or be the pre-insertion answer. thorough: the same under the Go race detector, plus the `http` command (concurrent requests through the real HTTP handlers) under the race detector. failwrite: a store write that fails on a running node must not leave it answering from a half-applied insertion."
CMDS = ['window', 'stress', 'failwrite']
# thorough: the HTTP handlers too run under the race detector (concurrent requests through the real apihttp/mgmthttp muxes)
CMDS_THOROUGH = CMDS + ['http']
CASES = {'window': ('run_window_cases', 'C10_queries_see_consistent_state (Fsm/Window.v vs RaftNode.applyMu)')}


def run(v, tier, seed, replay):
    vlib.coq_stage(v, "C10")
    s, results = common.node_session(v, "C10", CMDS_THOROUGH if tier == "thorough" else CMDS, tier, seed, RULE, race=(tier == "thorough"))
    try:
        common.compare_cases(v, s, results, "C10", CASES, seed, tier)
    finally:
        s.cleanup()
    v.coverage["trusted_base"] = vlib.TRUSTED_COMMON + [
        "a node is modelled by its durable state: the list of event digests its tables were built from, fsmState.Index and fsmState.BalloonVersion; one atomic store write per applied entry (RocksDB WriteBatch atomicity is trusted, exercised by kill -9 at the write)",
        "hashicorp/raft is trusted to deliver committed entries in index order and to re-deliver only entries it delivered before (hypotheses wf_log / olds_ok of the theorems); the harness runs the real raft library",
        "balloon digests/proofs are functions of the event list (theorems of C01/C03/C04); volatile caches are compared, not modelled: every scenario verifies served proofs against the snapshots originally issued",
        "system librocksdb 7.8.3 through the link shim (harness/shim/patch_rocksdb.py) instead of the vendored c-deps build"]
    v.assumptions = ['data-race freedom is checked dynamically (go -race, thorough tier) on the exercised schedules only']
