import vlib, common

RULE = "3-node raft clusters (real hashicorp/raft over TCP on loopback, RocksDB stores): random adds/bulks, follower stop and restart (log replay), leadership transfers; at every quiescent point all stored tables of all replicas are compared byte for byte, membership proofs (random event, random version) and incremental proofs served by EVERY replica are verified against the snapshots the leader returned, and the current version is compared with the number of accepted events; transfer: the same agreement checks on followers and new nodes brought up by state transfer after log compaction. distinct = (scenario, node, event, version); non-trivial = query version above the event's failwrite: a store write that fails with an I/O error on a running node (the replica must not go on from a half-applied entry). transferlive: a follower that stays up while out of the configuration misses a bulk of 1300 events and is brought back by state transfer on the live process; its tables and proofs must equal the other replicas' (findings of the transfer scenarios are filed under C09 and C06)."
CMDS = ['cluster', 'transfer', 'transferlive', 'failwrite']
# replicas brought up by state transfer are replicas too: the agreement oracles of `transfer` (tables, proofs, convergence) are this property's
PREFIXES = ('C06', 'C09:replica-', 'C09:no-convergence', 'C09:follower-cannot-rejoin')
CASES = {}


def run(v, tier, seed, replay):
    vlib.coq_stage(v, "C06")
    s, results = common.node_session(v, "C06", CMDS, tier, seed, RULE, prefixes=PREFIXES)
    try:
        common.compare_cases(v, s, results, "C06", CASES, seed, tier)
    finally:
        s.cleanup()
    v.coverage["trusted_base"] = vlib.TRUSTED_COMMON + [
        "a node is modelled by its durable state: the list of event digests its tables were built from, fsmState.Index and fsmState.BalloonVersion; one atomic store write per applied entry (RocksDB WriteBatch atomicity is trusted, exercised by kill -9 at the write)",
        "hashicorp/raft is trusted to deliver committed entries in index order and to re-deliver only entries it delivered before (hypotheses wf_log / olds_ok of the theorems); the harness runs the real raft library",
        "balloon digests/proofs are functions of the event list (theorems of C01/C03/C04); volatile caches are compared, not modelled: every scenario verifies served proofs against the snapshots originally issued",
        "system librocksdb 7.8.3 through the link shim (harness/shim/patch_rocksdb.py) instead of the vendored c-deps build"]
    v.assumptions = ['quiescent points only (the property is stated at quiescence)']
