import vlib, common

RULE = ("60 (quick) / 400 (thorough) random operation sequences of 40/80 steps on the real topology object (via the verif export hook): Update with primaries/secondaries drawn from a small "
        "url pool incl. the empty string, duplicates and the old primary as a secondary; NextReadEndpoint with all five preferences; Primary(); mark dead/alive/healthy on any endpoint; "
        "dumps - each result compared with the Coq model; direct oracles (never dead, never excluded, found when a live permitted one exists); plus 12/60 whole-client scenarios against "
        "scripted HTTP servers (ok/500/404/refused, leader changes, redirects, discovery on/off) checking acknowledged writes end at the leader, bounded requests per call and termination. "
        "End to end: a real 3-node raft cluster behind the real API muxes on the advertised addresses; a client built with NewHTTPClientFromConfig that believes a follower is the primary (discovery off/on) issues 4 writes: no write may be "
        "acknowledged unless it is in the log with its own digest, and the client must converge on the leader. distinct = (case, step); non-trivial = selection among >1 endpoints / call issuing >1 request")


def run(v, tier, seed, replay):
    vlib.coq_stage(v, "C20")
    s, res = common.harness(v, "C20", "core", "topo", tier, seed)
    try:
        common.absorb(v, res, RULE)
        mism = common.model_compare(v, s, res)
        v.coverage["model_vs_impl_mismatches"] = mism
        v.coverage["traces_validated_against_impl"] = len(res.get("samples", []))
        if mism != "[]" and not v.violations:
            v.violation("C20:correspondence", "topology model and client/topology.go disagree at (case, [step]): %s" % mism[:300],
                        dict(kind="correspondence", theorem="C20_* are about Client/Topology.v; its correspondence with client/topology.go no longer checks", mismatches=mism, seed=seed, tier=tier), no_input=True)
    finally:
        s.cleanup()
    # end to end: real 3-node cluster behind the real API muxes, a client built from a Config (as the commands do) that
    # believes a follower is the primary
    s2, results = common.node_session(v, "C20", ["redirect"], tier, seed, RULE)
    s2.cleanup()
    v.coverage["trusted_base"] = vlib.TRUSTED_COMMON + [
        "hook client/verif_export.go (add-only, //go:build verif) exposing the unexported topology",
        "request loops (callAny, callPrimary, discover) are modelled over scripted request outcomes; net/http, redirects, JSON decoding of /info/shards and the retrier's sleeps are not modelled: whole-client scenarios exercise them against scripted servers with direct oracles only",
        "health checks (clusterHealthCheck) are not modelled"]
    v.assumptions = ["attempt outcomes are arbitrary (scripted); the order of secondaries in a discovery answer is Go map order, so whole-client traces are checked by oracles, not by equality with the model"]
