import vlib, common

RULE = ("25 (quick) / 120 (thorough) random sequences of 60/120 operations per back-end over all five tables: batches of 1..5 mutations across tables, Get, GetRange, GetLast, GetAll readers read with "
        "buffers 1..100, close/reopen (RocksDB); keys at byte-order extremes (empty, 00.., ff.. up to 12 bytes, prefixes/extensions of each other), overwrites. Every output is compared with a per-table map oracle "
        "(direct) and with the Coq model (bplus tree model / per-table specification). distinct = (case, step); non-trivial = read that hits data")


def run(v, tier, seed, replay):
    vlib.coq_stage(v, "C14")
    v.coverage["model_vs_impl_mismatches"] = {}
    n = 0
    for binary, casefile, rocks in (("core", "cases_bplus.v", False), ("node", "cases_rocks.v", True)):
        s, res = common.harness(v, "C14", binary, "store", tier, seed, need_rocks=rocks)
        try:
            common.absorb(v, res, RULE)
            mism = common.model_compare(v, s, res, casefile=casefile)
            v.coverage["model_vs_impl_mismatches"][binary] = mism
            n += len(res.get("samples", []))
            if mism != "[]" and not [x for x in v.violations if ("rocks" in x["signature"]) == rocks]:
                v.violation("C14:correspondence:" + ("rocks" if rocks else "bplus"),
                            "store model and implementation disagree at (case, [step]): %s" % mism[:300],
                            dict(kind="correspondence", theorem="C14_*_refines (Store/Bplus.v vs storage/%s)" % ("rocks" if rocks else "bplus"), mismatches=mism, seed=seed, tier=tier), no_input=True)
        finally:
            s.cleanup()
    v.coverage["traces_validated_against_impl"] = n
    v.coverage["trusted_base"] = vlib.TRUSTED_COMMON + [
        "google/btree is modelled as a strictly sorted association list with ReplaceOrInsert / AscendGreaterOrEqual / DescendLessOrEqual",
        "RocksDB (system librocksdb 7.8.3) is trusted: the Go layer over it (column family per table, iterators, write batch) is compared with the per-table specification, not proved; durability is exercised by close/reopen only",
        "the GetAll reader of the bplus store is modelled and compared on every run but its refinement to consecutive segments of the table is not proved (the five other operations are)"]
    v.assumptions = ["a scan concurrent with writes is unspecified (readers are not used after a Mutate)"]
