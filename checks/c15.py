import vlib, common

RULE = ("12 (quick) / 60 (thorough) random sequences of 60/150 operations on the real raft log store (via the verif export hook, real RocksDB): StoreLog, StoreLogs (runs of 1..5 consecutive indexes), GetLog, "
        "DeleteRange (ordered and reversed bounds), FirstIndex/LastIndex, Set/SetUint64/Get/GetUint64, close+reopen; indexes include 0, 2^32, 2^63, 2^64-2, 2^64-1; empty payloads; every output compared with a map "
        "oracle (direct) and with the Coq model. distinct = (case, step); non-trivial = read that hits data / non-empty range")


def run(v, tier, seed, replay):
    vlib.coq_stage(v, "C15")
    s, res = common.harness(v, "C15", "node", "raftlog", tier, seed, need_rocks=True)
    try:
        common.absorb(v, res, RULE)
        mism = common.model_compare(v, s, res)
        v.coverage["model_vs_impl_mismatches"] = mism
        v.coverage["traces_validated_against_impl"] = len(res.get("samples", []))
        if mism != "[]" and not v.violations:
            v.violation("C15:correspondence", "raft log model and implementation disagree at (case, [step]): %s" % mism[:300],
                        dict(kind="correspondence", theorem="C15_* (Store/RaftLog.v vs consensus/raft_log.go)", mismatches=mism, seed=seed, tier=tier), no_input=True)
    finally:
        s.cleanup()
    v.coverage["trusted_base"] = vlib.TRUSTED_COMMON + [
        "hook consensus/verif_export.go (add-only): exports newRaftLogOpts and the store's methods",
        "RocksDB (sorted column family, range delete, SeekToFirst/SeekToLast) and go-msgpack (entry codec) are trusted/exercised, not modelled; durability = close and reopen without process death"]
    v.assumptions = ["values read with GetUint64 were written with at least 8 bytes"]
