import vlib, common

RULE = 'fsm: random lives of one node on RocksDB (incarnations with re-delivered entries, clean stops, reopen) - every outcome (applied/already-applied, first version, count) and the (index, version) pair after each incarnation compared with the Coq state machine; cluster: 3-node raft clusters with random adds/bulks, follower stop/restart, leadership transfers - every acknowledged snapshot must carry version = number of events accepted before it and its own event digest; crash: kill -9 at the store write and at random instants, restart, replay; transfer: followers brought back by state transfer after log compaction, later insertions must continue the version sequence. distinct = (scenario, step); non-trivial = step that inserts or re-delivers'
CMDS = ['fsm', 'cluster', 'crash', 'transfer', 'transferlive']
CASES = {'fsm': ('run_fsm_cases', 'C05_versions_dense_over_life (Fsm/Fsm.v apply vs consensus/fsm.go)')}


def run(v, tier, seed, replay):
    vlib.coq_stage(v, "C05")
    s, results = common.node_session(v, "C05", CMDS, tier, seed, RULE)
    try:
        common.compare_cases(v, s, results, "C05", CASES, seed, tier)
    finally:
        s.cleanup()
    v.coverage["trusted_base"] = vlib.TRUSTED_COMMON + [
        "a node is modelled by its durable state: the list of event digests its tables were built from, fsmState.Index and fsmState.BalloonVersion; one atomic store write per applied entry (RocksDB WriteBatch atomicity is trusted, exercised by kill -9 at the write)",
        "hashicorp/raft is trusted to deliver committed entries in index order and to re-deliver only entries it delivered before (hypotheses wf_log / olds_ok of the theorems); the harness runs the real raft library",
        "balloon digests/proofs are functions of the event list (theorems of C01/C03/C04); volatile caches are compared, not modelled: every scenario verifies served proofs against the snapshots originally issued",
        "system librocksdb 7.8.3 through the link shim (harness/shim/patch_rocksdb.py) instead of the vendored c-deps build"]
    v.assumptions = ['log shorter than 2^64 events', 'raft delivers committed entries in order (wf_log)']
