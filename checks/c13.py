import vlib, common

RULE = ("logs of 1..30 (quick) / ..100 events: every event queried at its reported version, a random later version, the current version and a version beyond it; each answer marshalled to JSON and back, "
        "fields compared, and the decoded proof verified against the right and three wrong (digest, snapshot) combinations vs the original object; 3n incremental answers likewise; every snapshot and a signed batch "
        "through Encode/Decode; gossip messages encoded back-to-back then decoded; 400 synthetic audit-path keys with indexes up to 2^63-1 through Serialize/ParseAuditPath and through the Coq codec. "
        "cmdwire: add commands of 1..4096 digests and FSM states with boundary values through encode/decode. clientv: genuine membership/incremental/insertion answers of logs up to >1040 events and bulks up to 1000 snapshots through the real client (HTTP body, JSON, To*Proof) must verify / come back unchanged. distinct = (kind, case, indices); non-trivial = existence answer / multi-entry path / index >= 2^32 / non-empty payload")


def run(v, tier, seed, replay):
    vlib.coq_stage(v, "C13")
    s, res = common.harness(v, "C13", "core", "wire", tier, seed)
    try:
        common.absorb(v, res, RULE)
        mism = common.model_compare(v, s, res)
        v.coverage["model_vs_impl_mismatches"] = mism
        v.coverage["traces_validated_against_impl"] = len(res.get("samples", []))
        if mism != "([], [])" and not [x for x in v.violations if "query-beyond-current" not in x["signature"]]:
            v.violation("C13:correspondence", "wire model and implementation disagree (balloon cases, audit-path key indexes): %s" % mism[:300],
                        dict(kind="correspondence", theorem="C13_auditpath_roundtrip / C13_membership_verdict_preserved", mismatches=mism, seed=seed, tier=tier), no_input=True)
    finally:
        s.cleanup()
    common.client_entry_points(v, "C13", tier, seed, ('C13',))
    # binary encodings of the consensus layer (needs the RocksDB-linked build of package consensus)
    s3, res3 = common.harness(v, "C13", "node", "cmdwire", tier, seed, need_rocks=True)
    try:
        st = res3.get("stats", {})
        v.coverage["evaluations"] = v.coverage.get("evaluations", 0) + st.get("evaluations", 0)
        v.coverage.setdefault("distribution", {}).update({"cmdwire_" + k: n for k, n in st.items()})
        for viol in (res3.get("violations") or []):
            v.violation(viol["signature"], viol["what"], viol["replay"])
    finally:
        s3.cleanup()
    v.coverage["trusted_base"] = vlib.TRUSTED_COMMON + [
        "Coq's DecimalString/DecimalN library lemmas for the decimal codec; strconv.Atoi and fmt %d are modelled by it and compared on 400 keys per run",
        "encoding/json, go-msgpack (gossip messages) and base64 are third-party codecs: exercised by round trips, not modelled",
        "replicated commands and the persisted FSM state (consensus/command.go, codec.go: type byte + go-msgpack) are round-tripped for bulks of 1..4096 (thorough: 100000) digests incl. digests made of msgpack marker bytes (cmdwire); go-msgpack itself is not modelled"]
    v.assumptions = ["position indexes below 2^63 (strconv.Atoi is a signed parse)"]
