import vlib, common

RULE = ("event sequences of 1..30 (quick) / ..130 distinct events with crafted shared prefixes, each inserted as single adds and under three random groupings into Add/AddBulk "
        "(one with few large bulks), two of them with close/reopen of the balloon at random call boundaries incl. before the first insert; every history digest and every "
        "call-end hyper digest compared across plans (Go vs Go) and every snapshot compared with the Coq construction (Go vs model); plus the balloon and history runs; "
        "hyperb: the hyper tree alone (Add/AddBulk with crafted shared prefixes, existing keys, duplicates inside a bulk, reopen) - after every call the root hash, the whole HyperTable and HyperCacheTable and the cached batches on the paths of all keys compared slot by slot with the batch-level Coq model (Hyper/HyperBatch.v), and three searches per call (value and audit path). "
        "distinct = (case, plan, call); non-trivial = bulk of >1 events or followed by a reopen")


def run(v, tier, seed, replay):
    vlib.coq_stage(v, "C04")
    mism_all = []
    for cmd in ("canon", "balloon", "hyperb"):
        s, res = common.harness(v, "C04", "core", cmd, tier, seed)
        try:
            common.absorb(v, res, RULE)
            mism = common.model_compare(v, s, res)
            # only snapshot digests (code 901 / 900) are this property's observables
            import re
            bad = re.findall(r"\((\d+)%N, 90[01]%N\)", mism)
            if cmd == "hyperb" and mism != "[]":
                bad = [mism]       # root hash or table content of the batch-level model differs
            if bad:
                mism_all.append("%s: %s" % (cmd, mism[:200]))
            v.coverage.setdefault("model_vs_impl_mismatches", {})[cmd] = "[]" if not bad else mism
        finally:
            s.cleanup()
    v.violations = [x for x in v.violations if x["signature"].startswith("C04")]
    v.coverage["traces_validated_against_impl"] = v.coverage.get("distribution", {}).get("plans", 0)
    if mism_all and not v.violations:
        v.violation("C04:correspondence", "snapshot digests returned by the implementation differ from the published construction (Coq HistSpec.root / ytree_of): %s" % "; ".join(mism_all),
                    dict(kind="correspondence", theorem="C04_snapshots_canonical", mismatches=mism_all, seed=seed, tier=tier), no_input=False)
    v.coverage["trusted_base"] = vlib.TRUSTED_COMMON + [
        "no hypothesis on the hash function",
        "history insertion (pruneToInsert, insert visitor, write cache as an unbounded overlay, mutations) is modelled and proved to compute the spec root; the hyper batch/cache/store code is modelled (Hyper/HyperBatch.v: batches, shortcut push-down, cache/tiles/store writes, cache rebuild) and compared with the Go code table by table and with the spec construction on every snapshot; that the batch-level model computes the spec root is proved (C04_hyper_batches_compute_the_published_root); search and cache rebuild from the persisted tiles likewise (C01_hyper_batch_search_is_the_published_search, C08_hyper_tree_recreation_invisible)",
        "restarts are not a model transition: the model has no volatile state, so 'restart is invisible' is checked by comparing Go runs with reopen against the model run without"]
    v.assumptions = ["events distinct for the grouping-independence of the hyper digest (as the property states)", "LRU write cache (300) never evicts an unpersisted node that is still needed"]
