import vlib, common

RULE = ("sender: (1) 60/400 snapshots (digests of length 0..40, nil digests, versions up to 2^64-1) printed by fmt.Sprintf(%v) and by the Coq printer; (2) every single-bit change of every digest, of the version and of the signature, "
        "a byte moved across a field boundary and a truncated signature, against the real ed25519 verifier; (3) one batcher driven by scripted bursts and pauses - the published batches compared with the Coq batcher; "
        "(4) 2..4 concurrent batchers with random arrival timing around the flush interval - every snapshot exactly once, batches of 1..BatchSize, signatures verify for exactly the issued snapshot; "
        "(5) end to end: snapshots issued by AddBulk on a real RaftNode through a channel of capacity 1/4/64 into a running sender. distinct = printed snapshot / modification batch / script / emitted snapshot server: a stand-alone real server - every snapshot it issues is published by its sender on the gossip bus once. A burst of 5000 snapshots against a bus consumer slower than the sender.")
CMDS = ['sender', 'server']
CASES = {'sender': ('run_print_cases / run_batch_cases', 'C17_message_determines_snapshot + C17_exactly_once_in_bounded_batches (Sender/Sign.v print_snapshot, Sender/Batcher.v brun vs server/sender.go)')}


def run(v, tier, seed, replay):
    vlib.coq_stage(v, "C17")
    s, results = common.node_session(v, "C17", CMDS, tier, seed, RULE)
    try:
        common.compare_cases(v, s, results, "C17", CASES, seed, tier)
    finally:
        s.cleanup()
    v.coverage["trusted_base"] = vlib.TRUSTED_COMMON + [
        "Go channel semantics (a value sent on a channel is received by exactly one receiver) and the timer (a batcher that receives nothing for Interval gets a tick) are trusted: the theorem quantifies over schedules that assign each arrival to one batcher",
        "the signature scheme is a section variable with three idealised properties of ed25519 (a signed message verifies; a message has one valid signature; a signature is valid for one message); golang.org/x/crypto/ed25519 itself is exercised on every single-bit modification, not proved",
        "fmt's %v formatting of *protocol.Snapshot is modelled (Sender/Sign.v print_snapshot) and compared on generated snapshots",
        "gossip.MessageBus delivers each published message to its subscribers (not modelled; the harness subscribes to agent.Out)",
        "system librocksdb 7.8.3 through the link shim for the end-to-end runs"]
    v.assumptions = ["BatchSize >= 1 (with BatchSize 0 the size bound is false: Sender/BatcherProofs.v batch_size_zero_refuted)",
                     "the sender is running: snapshots still inside a batcher when Stop is called are outside the property",
                     "the bus has a subscriber for batch messages (Publish drops a message nobody subscribed to)"]
