import vlib, common

RULE = 'http: a real single-node RaftNode behind the real API and management muxes (httptest servers); 1500 (quick) / 12000 (thorough) requests over every path and method with bodies of every JSON shape, truncated and garbled JSON, boundary numbers, empty/oversized/null collections, digests of every length; every request must get an HTTP response, a valid add + verifying membership proof must still work after every 10th request, the number of events each request caused to be replicated is compared with the proposal model, and the node must restart and replay its log afterwards. distinct = request; non-trivial = non-empty body server: the real server.Server over HTTP across three lives; thorough: more than 65 536 events on a stand-alone server. http also sends valid requests with chunked bodies and an oversized Content-Length, and a phase of concurrent clients.'
CMDS = ['http', 'server']
CASES = {'http': ('run_api_cases', 'C11_proposals_applicable (Fsm/Api.v propose vs api/apihttp + RaftNode.Add/AddBulk)')}


def run(v, tier, seed, replay):
    vlib.coq_stage(v, "C11")
    s, results = common.node_session(v, "C11", CMDS, tier, seed, RULE)
    try:
        common.compare_cases(v, s, results, "C11", CASES, seed, tier)
    finally:
        s.cleanup()
    v.coverage["trusted_base"] = vlib.TRUSTED_COMMON + [
        "a node is modelled by its durable state: the list of event digests its tables were built from, fsmState.Index and fsmState.BalloonVersion; one atomic store write per applied entry (RocksDB WriteBatch atomicity is trusted, exercised by kill -9 at the write)",
        "hashicorp/raft is trusted to deliver committed entries in index order and to re-deliver only entries it delivered before (hypotheses wf_log / olds_ok of the theorems); the harness runs the real raft library",
        "balloon digests/proofs are functions of the event list (theorems of C01/C03/C04); volatile caches are compared, not modelled: every scenario verifies served proofs against the snapshots originally issued",
        "system librocksdb 7.8.3 through the link shim (harness/shim/patch_rocksdb.py) instead of the vendored c-deps build"]
    v.assumptions = ['net/http, encoding/json and the handlers run, they are not modelled']
