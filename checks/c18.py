import vlib, common

RULE = ("40 (quick) / 300 (thorough) random sequences of 50/100 operations on the real gossip Topology / Agent.route / Agent.Send / BatchProcessor.wasProcessed (via the verif export hook): joins and leaves "
        "(incl. leaves for roles nobody has), role lists read back, routing decisions (validated as 'one candidate per role, never self'), Send on TTLs {0,1,2,3,5,100,-1,-7}, repeated deliveries of 6 batches; "
        "every result compared with the Coq model; plus one real two-agent loopback chain without dedup cache (wire TTL must fall at every hop, deliveries <= initial TTL) and a 6-goroutine routing stress during 3000 "
        "joins/leaves (no panic, view intact). distinct = (case, step); non-trivial = non-empty routing decision / non-zero TTL / redelivery")


def run(v, tier, seed, replay):
    vlib.coq_stage(v, "C18")
    s, res = common.harness(v, "C18", "core", "gossip", tier, seed)
    try:
        common.absorb(v, res, RULE)
        mism = common.model_compare(v, s, res)
        v.coverage["model_vs_impl_mismatches"] = mism
        v.coverage["traces_validated_against_impl"] = len(res.get("samples", []))
        if mism != "[]" and not v.violations:
            v.violation("C18:correspondence", "gossip model and implementation disagree at (case, [step]): %s" % mism[:300],
                        dict(kind="correspondence", theorem="C18_* (Gossip/Gossip.v vs gossip/agent.go, topology.go, peer.go, processor.go)", mismatches=mism, seed=seed, tier=tier), no_input=True)
    finally:
        s.cleanup()
    v.coverage["trusted_base"] = vlib.TRUSTED_COMMON + [
        "hook gossip/verif_export.go (add-only, //go:build verif): bare Agent for route/Send, wasProcessed with an injected cache",
        "memberlist (transport, failure detection), go-msgpack and freecache are not modelled; the dedup cache is idealised as unbounded (freecache may evict, then a batch can be processed again)",
        "data races: the lock discipline of Topology is exercised by a concurrent stress and by the fix commit, not proved; no model exhibits Go memory-model races"]
    v.assumptions = ["Shuffle+Take(1) returns an element of the candidate list", "delivery multiplicities and orders are arbitrary"]
