import vlib, common

RULE = 'crash: a child process applies a log on RocksDB and is killed (SIGKILL) immediately before / immediately after the store write of a chosen apply, or at a random instant under a real raft node; the parent reopens the data, checks the state equals a prefix applied exactly once (tables compared with a never-crashed twin), replays the log (each remaining entry applied once, applied ones refused), and verifies every snapshot acknowledged before the kill. fsm: lives with re-delivery compared with the Coq model. distinct = (workload, crash point) transfer: the crash image of a follower restored by state transfer reopens to the transferred state; failed store write on a running node.'
CMDS = ['crash', 'fsm', 'transfer']
CASES = {'fsm': ('run_fsm_cases', 'C07_recovery (Fsm/Fsm.v deliver vs consensus/fsm.go)')}


def run(v, tier, seed, replay):
    vlib.coq_stage(v, "C07")
    s, results = common.node_session(v, "C07", CMDS, tier, seed, RULE)
    try:
        common.compare_cases(v, s, results, "C07", CASES, seed, tier)
    finally:
        s.cleanup()
    v.coverage["trusted_base"] = vlib.TRUSTED_COMMON + [
        "a node is modelled by its durable state: the list of event digests its tables were built from, fsmState.Index and fsmState.BalloonVersion; one atomic store write per applied entry (RocksDB WriteBatch atomicity is trusted, exercised by kill -9 at the write)",
        "hashicorp/raft is trusted to deliver committed entries in index order and to re-deliver only entries it delivered before (hypotheses wf_log / olds_ok of the theorems); the harness runs the real raft library",
        "balloon digests/proofs are functions of the event list (theorems of C01/C03/C04); volatile caches are compared, not modelled: every scenario verifies served proofs against the snapshots originally issued",
        "system librocksdb 7.8.3 through the link shim (harness/shim/patch_rocksdb.py) instead of the vendored c-deps build"]
    v.assumptions = ['RocksDB write batches are atomic and durable at process death (not power loss: no fsync fault injection)']
