"""Shared machinery of the /verif checks: Coq build + gates, scratch copy of /repo, Go harness build,
model evaluation (coqc cases.v), verdict protocol, known findings, evidence."""
import json, os, re, shutil, subprocess, sys, time, hashlib, fcntl, glob

VERIF = os.path.dirname(os.path.dirname(os.path.abspath(__file__)))
REPO = os.environ.get("QED_REPO", "/repo")
COQ = os.path.join(VERIF, "coq")
SCRATCH_ROOT = "/var/tmp/qedverif"
GOENV = dict(os.environ, GOFLAGS="-mod=mod", GOPROXY="off", GOSUMDB="off", GOTOOLCHAIN="local",
             CGO_ENABLED="1")
# development aid: VERIF_COVER=<dir> builds the harness binaries with coverage instrumentation of the project's
# packages and collects the counters there (go tool covdata func -i <dir>); never set by a registered command
if os.environ.get("VERIF_COVER"):
    os.makedirs(os.environ["VERIF_COVER"], exist_ok=True)
    GOENV["GOCOVERDIR"] = os.environ["VERIF_COVER"]
FORBIDDEN = r"\b(Admitted|admit|Axiom|Axioms|Parameter|Parameters|Conjecture|Conjectures|Admit Obligations|Unset Guard Checking|Unset Positivity Checking|Unset Universe Checking|bypass_check|type-in-type|impredicative-set|native_compute)\b"


def sh(cmd, cwd=None, env=None, timeout=3600, check=False):
    t = time.time()
    try:
        p = subprocess.run(cmd, shell=isinstance(cmd, str), cwd=cwd, env=env, timeout=timeout,
                           stdout=subprocess.PIPE, stderr=subprocess.STDOUT, text=True, errors="replace")
        out, rc = p.stdout, p.returncode
    except subprocess.TimeoutExpired as e:
        out = (e.stdout or b"")
        if isinstance(out, bytes):
            out = out.decode(errors="replace")
        out += "\n[TIMEOUT after %ss]" % timeout
        rc = 124
    if check and rc != 0:
        raise RuntimeError("command failed (%s): %s\n%s" % (rc, cmd, out[-4000:]))
    return rc, out, time.time() - t


# ---------------------------------------------------------------- Coq side
def coq_lock():
    os.makedirs(SCRATCH_ROOT, exist_ok=True)
    f = open(os.path.join(SCRATCH_ROOT, "coq.lock"), "w")
    fcntl.flock(f, fcntl.LOCK_EX)
    return f


def coq_build():
    """Full (incremental) .vo build, keep-going so that model files still build when a proof breaks.
    Returns (ok, failing_files, log)."""
    lock = coq_lock()
    try:
        if not os.path.exists(os.path.join(COQ, "Makefile")) or \
                os.path.getmtime(os.path.join(COQ, "Makefile")) < os.path.getmtime(os.path.join(COQ, "_CoqProject")):
            sh("coq_makefile -f _CoqProject -o Makefile", cwd=COQ, check=True)
        rc, out, _ = sh("timeout 3000 make -k -j16 2>&1", cwd=COQ, timeout=3100)
    finally:
        lock.close()
    failing = sorted(set(re.findall(r'File "\./([^"]+\.v)", line', out))) if rc != 0 else []
    return rc == 0, failing, out


def coq_deps(vfile):
    """Transitive .v dependencies (inside the development) of coq/<vfile>."""
    seen, todo = set(), [vfile]
    while todo:
        f = todo.pop()
        if f in seen:
            continue
        seen.add(f)
        try:
            src = open(os.path.join(COQ, f)).read()
        except OSError:
            continue
        for m in re.finditer(r"From QV Require (?:Import|Export)?\s*(.*?)\.\s", src, flags=re.S):
            for name in m.group(1).split():
                p = name.replace(".", "/") + ".v"
                if os.path.exists(os.path.join(COQ, p)):
                    todo.append(p)
        for m in re.finditer(r"Require (?:Import |Export )?QV\.([A-Za-z_0-9.]+)\.\s", src):
            p = m.group(1).replace(".", "/") + ".v"
            if os.path.exists(os.path.join(COQ, p)):
                todo.append(p)
    return sorted(seen)


def count_obligations(files):
    names = []
    for f in files:
        src = open(os.path.join(COQ, f)).read()
        src = re.sub(r"\(\*.*?\*\)", "", src, flags=re.S)
        for m in re.finditer(r"^\s*(?:Local |Global |#\[[^\]]*\]\s*)?(Theorem|Lemma|Corollary|Example|Fact|Proposition)\s+([A-Za-z_0-9']+)", src, flags=re.M):
            names.append(f + ":" + m.group(2))
    return names


def grep_gate():
    bad = []
    for f in glob.glob(os.path.join(COQ, "**", "*.v"), recursive=True):
        src = open(f).read()
        src_nc = re.sub(r"\(\*.*?\*\)", "", src, flags=re.S)
        for m in re.finditer(FORBIDDEN, src_nc):
            bad.append("%s: %s" % (os.path.relpath(f, COQ), m.group(0)))
    proj = open(os.path.join(COQ, "_CoqProject")).read()
    for flag in ("-type-in-type", "-impredicative-set", "-vos", "-vok", "-noinit"):
        if flag in proj:
            bad.append("_CoqProject: " + flag)
    return bad


def property_theorems(pid):
    f = os.path.join(COQ, "Properties", pid + ".v")
    src = open(f).read()
    src = re.sub(r"\(\*.*?\*\)", "", src, flags=re.S)
    return re.findall(r"^\s*Theorem\s+([A-Za-z_0-9']+)", src, flags=re.M)


def print_assumptions(pid, workdir):
    """Re-ask the kernel for the axioms under every theorem of Properties/<pid>.v."""
    thms = property_theorems(pid)
    vf = os.path.join(workdir, "assume_%s.v" % pid)
    with open(vf, "w") as f:
        f.write("Require Import QV.Properties.%s.\n" % pid)
        for t in thms:
            f.write('Print Assumptions %s.\n' % t)
    rc, out, _ = sh("timeout 600 coqc -Q %s QV %s" % (COQ, vf), cwd=workdir)
    res = {}
    if rc != 0:
        return None, out
    blocks = re.split(r"(?=Closed under the global context|Axioms:|Section Variables:)", out)
    blocks = [b.strip() for b in blocks if b.strip()]
    for t, b in zip(thms, blocks):
        res[t] = b
    return res, out


# ---------------------------------------------------------------- scratch copy + harness
class Scratch:
    def __init__(self, pid):
        os.makedirs(SCRATCH_ROOT, exist_ok=True)
        self.dir = os.path.join(SCRATCH_ROOT, "%s.%d" % (pid, os.getpid()))
        shutil.rmtree(self.dir, ignore_errors=True)
        os.makedirs(self.dir)
        self.qed = os.path.join(self.dir, "qed")
        self.h = os.path.join(self.dir, "h")
        self.work = os.path.join(self.dir, "work")
        os.makedirs(self.work)

    def prepare(self, need_rocks):
        sh(["rsync", "-a", "--exclude", ".git", "--exclude", "c-deps", REPO + "/", self.qed + "/"], check=True)
        if need_rocks:
            sh([sys.executable, os.path.join(VERIF, "harness", "shim", "patch_rocksdb.py"), self.qed], check=True)
        hooks = os.path.join(VERIF, "harness", "hooks")
        for root, _, files in os.walk(hooks):
            for fn in files:
                rel = os.path.relpath(os.path.join(root, fn), hooks)
                dst = os.path.join(self.qed, rel)
                if os.path.isdir(os.path.dirname(dst)):
                    shutil.copy(os.path.join(root, fn), dst)
        shutil.copytree(os.path.join(VERIF, "harness", "src"), self.h)
        shutil.copy(os.path.join(REPO, "go.sum"), os.path.join(self.h, "go.sum"))
        gomod = open(os.path.join(REPO, "go.mod")).read()
        gomod = gomod.replace("module github.com/bbva/qed", "module qedverif", 1)
        gomod += "\nrequire github.com/bbva/qed v0.0.0\nreplace github.com/bbva/qed => ../qed\n"
        open(os.path.join(self.h, "go.mod"), "w").write(gomod)

    def build(self, pkg, race=False):
        """go build ./<pkg> in the harness module, hooks on (-tags verif). Returns (binary|None, log)."""
        out_bin = os.path.join(self.dir, "bin_" + pkg.replace("/", "_") + ("_race" if race else ""))
        cover = ["-cover", "-coverpkg=github.com/bbva/qed/...,qedverif/..."] if os.environ.get("VERIF_COVER") else []
        cmd = ["go", "build", "-trimpath", "-tags", "verif"] + cover + (["-race"] if race else []) + ["-o", out_bin, "./" + pkg]
        rc, out, _ = sh(cmd, cwd=self.h, env=GOENV, timeout=1500)
        return (out_bin if rc == 0 else None), out

    def cleanup(self):
        shutil.rmtree(self.dir, ignore_errors=True)


def run_coq_cases(casefile, timeout=1700, mem_kb=12_000_000):
    """coqc a harness-written cases file; returns (rc, output)."""
    cmd = "ulimit -v %d; timeout %d coqc -Q %s QV %s" % (mem_kb, timeout, COQ, casefile)
    rc, out, _ = sh(cmd, cwd=os.path.dirname(casefile), timeout=timeout + 30)
    return rc, out


def parse_result_list(out, name):
    """Extract the value printed by `Print <name>.` as text between '<name> =' and ': type'."""
    m = re.search(re.escape(name) + r"\s*=\s*(.*?)\n\s*:\s", out, flags=re.S)
    return re.sub(r"\s+", " ", m.group(1)).strip() if m else None


# ---------------------------------------------------------------- verdicts
def load_known():
    p = os.path.join(VERIF, "KNOWN_FINDINGS.json")
    if not os.path.exists(p):
        return []
    return json.load(open(p))


class Verdict:
    def __init__(self, pid, tier, seed):
        self.pid, self.tier, self.seed = pid, tier, seed
        self.t0 = time.time()
        self.violations = []     # dict(signature, what, replay(dict), no_input(bool))
        self.notes = []
        self.coverage = {}
        self.assumptions = []
        self.known_hits = []

    def violation(self, signature, what, replay, no_input=False):
        self.violations.append(dict(signature=signature, what=what, replay=replay, no_input=no_input))

    def finish(self, level="proof"):
        known = [k for k in load_known() if k.get("property") == self.pid and k.get("status") == "known"]
        real = []
        for v in self.violations:
            hit = next((k for k in known if k["signature"] == v["signature"]), None)
            if hit is not None:
                if v["signature"] not in self.known_hits:
                    self.known_hits.append(v["signature"])
                    print("KNOWN-FINDING: property=%s %s" % (self.pid, hit["what"]))
            else:
                real.append(v)
        # group identical signatures
        seen, rc = set(), 0
        os.makedirs(os.path.join(VERIF, "replays"), exist_ok=True)
        for v in real:
            if v["signature"] in seen:
                continue
            seen.add(v["signature"])
            rid = hashlib.sha1(v["signature"].encode()).hexdigest()[:10]
            path = os.path.join(VERIF, "replays", "%s_%s.json" % (self.pid, rid))
            json.dump(dict(property=self.pid, signature=v["signature"], what=v["what"], seed=self.seed, tier=self.tier,
                           replay=v["replay"]), open(path, "w"), indent=1, default=str)
            print("VIOLATION property=%s replay=%s%s" % (self.pid, path, " no-failing-input-found" if v["no_input"] else ""))
            print("  what: " + v["what"][:600])
            rc = 1
        ev = dict(property_id=self.pid, tier=self.tier, seed=self.seed, level=level, coverage=self.coverage,
                  assumptions=self.assumptions, wall_s=round(time.time() - self.t0, 2), violations=len(seen),
                  known_findings_reported=self.known_hits, notes=self.notes)
        # bin/seedtest (development aid) points this elsewhere so that runs against a deliberately broken tree never
        # overwrite the evidence of the registered commands
        evdir = os.environ.get("VERIF_EVIDENCE_DIR") or os.path.join(VERIF, "evidence")
        os.makedirs(evdir, exist_ok=True)
        json.dump(ev, open(os.path.join(evdir, self.pid + ".json"), "w"), indent=1, default=str)
        return rc


def coq_stage(v, pid):
    """Stages A and B of the verdict protocol. Returns True when the proofs of pid's cone all check."""
    ok, failing, log = coq_build()
    cone = coq_deps("Properties/%s.v" % pid)
    obligations = count_obligations(cone)
    broken = [f for f in failing if f in cone]
    bad = grep_gate()
    v.coverage.update(obligations=len(obligations), discharged=0,
                      checker_cmd="coq_makefile -f _CoqProject -o Makefile && make -k -j16 (coqc 8.16.1, full .vo build) in /verif/coq; then coqc of a generated file running Print Assumptions on every theorem of Properties/%s.v" % pid,
                      proof_files=cone)
    if bad:
        v.violation("gate:forbidden-construct", "forbidden construct in the Coq development: " + "; ".join(bad[:5]),
                    dict(kind="gate", found=bad), no_input=True)
        return False
    if broken or not ok and not os.path.exists(os.path.join(COQ, "Properties", pid + ".vo")):
        names = [n for n in obligations if n.split(":")[0] in broken]
        err = re.findall(r'File "\./[^\n]*\n(?:.*\n){0,6}', log)
        v.coverage["discharged"] = len(obligations) - len(names)
        v.coverage["broken_files"] = broken
        v.proof_broken = dict(files=broken, first_error=(err[0] if err else log[-1500:]))
        return False
    work = os.path.join(SCRATCH_ROOT, "assume.%d" % os.getpid())
    os.makedirs(work, exist_ok=True)
    try:
        res, out = print_assumptions(pid, work)
    finally:
        shutil.rmtree(work, ignore_errors=True)
    if res is None:
        v.proof_broken = dict(files=["Properties/%s.v" % pid], first_error=out[-1500:])
        return False
    v.coverage["print_assumptions"] = res
    if getattr(v, "tier", "quick") == "thorough":
        # independent re-check of the compiled theory of this property and everything it depends on
        rc, out, dt = sh("flock /var/tmp/qedverif/coqchk.lock timeout 3000 coqchk -silent -o -Q %s QV QV.Properties.%s" % (COQ, pid), cwd=COQ, timeout=3100)
        tail = out[-1500:]
        v.coverage["coqchk"] = dict(cmd="coqchk -silent -o -Q /verif/coq QV QV.Properties.%s" % pid, rc=rc, wall_s=round(dt, 1), report=tail)
        if rc != 0 or "Axioms: <none>" not in re.sub(r"\s+", " ", out):
            v.violation("gate:coqchk", "coqchk does not accept the compiled development of %s or reports axioms: %s" % (pid, tail[-400:]),
                        dict(kind="gate", coqchk=tail), no_input=True)
            return False
    notclosed = {t: b for t, b in res.items() if not b.startswith("Closed under the global context")}
    v.coverage["discharged"] = len(obligations)
    v.coverage["theorems"] = list(res.keys())
    if notclosed:
        # axioms of the standard library would have to be listed in ALLOWED_AXIOMS of the check; none are expected
        v.violation("gate:axioms", "theorem depends on axioms/section variables: %r" % notclosed,
                    dict(kind="gate", assumptions=notclosed), no_input=True)
        return False
    return True


TRUSTED_COMMON = [
    "Coq 8.16.1 kernel (coqc), vm_compute for model evaluation in cases files and in Examples; no native_compute",
    "Print Assumptions on every property theorem: 'Closed under the global context' (no axioms); primitive Uint63 integers are used only by Base/Sha256.v (execution, no theorem depends on it)",
    "hand-written Gallina model tied to /repo by the correspondence run of this check (harness in /verif/harness/src, generators, canonicalisation)",
    "scratch copy of /repo under /var/tmp/qedverif (rsync of the working tree; for packages needing RocksDB the five build-plumbing edits of harness/shim/patch_rocksdb.py; system librocksdb 7.8.3)",
]
